"""C27 - Config values are interpreted like git.

spec/config/ConfigValues.tla (on top of ConfigFormat.tla, the transcription of git's reader) gives, for a
text and a query (section, subsection, key): all values in file order (`--get-all`), the last value, and
its reading as boolean / integer with k,m,g / path (`--type=bool|int|path`), with git's case rules. The two
documented gitoxide deviations are named operators (DocLegacyKeepsCase, DocImplicitNoString).
 A: ConfigValues_Gen enumerates texts over the value and structure alphabets of C26 and over a typed-value
    alphabet (digits, signs, unit letters, 0x, boolean words, ~/, limits of 2^31 / 2^63) and prints the
    Answer for every key of the listing in three spellings (canonical, upper-cased section/key,
    case-swapped subsection). gix_config::File must load every text git accepts (in the judged domain)
    and raw_values / strings / string / boolean / integer / path(+interpolate) must return the Answer.
 B: the recorded answers are judged by TLC (ConfigValues_Trace) on seeded random mutations of
    real-world-shaped files (queries derived by the spec from its own listing).
 C: `git config -f F --list -z`, `--get-all -z`, `--type=bool|int|path` audit the specification.
"""
import concurrent.futures
from vf import *
from props import c26 as fmt

LEVEL = "exploration"
META = {
    "technique": "TLA+ transcription of git's config reader and value interpretation as oracle; token-alphabet enumeration by TLC replayed through gix_config::File getters; recorded answers judged by a TLC trace spec; spec audited against git config",
    "note": "Judged domain: texts git accepts, no NUL, every key inside a section, no unquoted inner tab/CR in values (git 2.39 rewrites them to spaces, newer git does not); paths: non-empty, `~/x` or not starting with `~` / `%(prefix)/`. Trusted: TLC, the installed git.",
}
HOME = b"/home/u"


def qkey(a):
    return {"sec": a["sec"], "hassub": a["hassub"], "sub": a["sub"], "key": a["key"]}


def compare(a, g):
    """spec Answer `a` vs observed `g` -> list of (getter, detail)"""
    bad = []
    want = {"kind": "ok", "l": a["values"]} if a["found"] else {"kind": "none", "l": []}
    for getter in ("strings", "strings_key"):
        if g[getter] != want:
            bad.append((getter, {"want": want, "got": g[getter]}))
    if g["bool"] != a["bool"]:
        bad.append(("bool", {"want": a["bool"], "got": g["bool"]}))
    if not a["lastimplicit"]:
        if g["string"] != a["string"]:
            bad.append(("string", {"want": a["string"], "got": g["string"]}))
        if g["int"] != a["int"]:
            bad.append(("int", {"want": a["int"], "got": g["int"]}))
    if a["pathdom"] and g["path"] != a["path"]:
        bad.append(("path", {"want": a["path"], "got": g["path"]}))
    return bad


def shape(c, a, getter, detail):
    """a stable label of the input shape behind a mismatch (for known-finding matchers; not a verdict)"""
    b = bytes(c["input"])
    if any(e["legacy"] and e["name"] == a["name"] for e in c["list"]) or a["deviates"]:
        return "legacy-header"
    if b"\\b" in b:
        return "escape-b"
    if re.search(rb"\\\r?\n[ \t]", b):
        return "continuation"          # a continuation line that starts with blanks (the known deviation)
    if a["lastimplicit"]:
        return "implicit-key"
    if getter in ("int", "bool") and a["string"]["kind"] == "ok":
        v = bytes(a["string"]["v"])
        t = v.lstrip(b" \t\n\r\x0b\x0c")
        d = t.lstrip(b"+-")
        if d[:1].isdigit():
            if t != v:
                return "leading-blank"
            if d[:1] == b"0" and len(d) > 1:
                return "octal-or-hex"
            if d[-1:].lower() in (b"k", b"m", b"g"):
                return "unit-suffix"
            return "magnitude"
    if re.search(rb'"[ \t]', b):
        return "blank-after-empty-quotes"
    return "other"


def judge_case(ctx, c, r, kind):
    if "got" not in r:
        ctx.violation({"kind": kind, "what": "crash", "classes": ["crash"], "case": case_of(c), "input_text": show_bytes(c["input"]), "result": r})
        return
    g = r["got"]
    if not c["indomain"]:
        return
    if not g["file_ok"]:
        b = bytes(c["input"])
        cl = "backslash-at-eof" if b.endswith(b"\\") else ("lone-cr" if b"\r" in b.replace(b"\r\n", b"") else
             ("empty-section-name" if b"[." in b else "other"))
        ctx.violation({"kind": kind, "what": "git accepts this file, gitoxide rejects it", "classes": ["rejects-valid-file", cl],
                       "case": case_of(c), "input_text": show_bytes(c["input"]), "error": g.get("err")})
        return
    for a, o in zip(c["answers"], g["answers"]):
        for getter, detail in compare(a, o):
            ctx.violation({"kind": kind, "what": "%s differs from git for key %s" % (getter, show_bytes(a["name"])),
                           "classes": [getter, shape(c, a, getter, detail)], "case": case_of(c), "query": qkey(a),
                           "input_text": show_bytes(c["input"]),
                           "want": {k: (show_bytes(v) if isinstance(v, list) and v and isinstance(v[0], int) else v) for k, v in detail["want"].items()},
                           "got": detail["got"]})


def case_of(c):
    return {"input": c["input"]}


def hcase(c):
    return {"input": c["input"], "home": b2l(HOME), "queries": [qkey(a) for a in c["answers"]]}


# ------------------------------------------------------------------ binding C
def audit_lookup(ctx, cases, tag):
    d = os.path.join(ctx.work, "alk-" + tag)
    os.makedirs(d, exist_ok=True)

    def one(ic):
        i, c = ic
        p = os.path.join(d, "%d.cfg" % i)
        with open(p, "wb") as f:
            f.write(bytes(c["input"]))
        out = []
        for a in c["answers"]:
            name = bytes(a["name"])
            if b"\n" in name or b"\0" in name or name.startswith(b"-"):
                continue        # not observable through the command line
            r = git(["config", "-f", p, "-z", "--get-all", name])
            want = b"".join(bytes(v) + b"\0" for v in a["gvalues"])
            if (r.returncode == 0) != bool(a["gvalues"]) or r.stdout != want:
                out.append({"input": show_bytes(c["input"]), "key": show_bytes(a["name"]), "git_rc": r.returncode,
                            "git_out": r.stdout.decode("latin1"), "spec": want.decode("latin1")})
        os.remove(p)
        return out, len(c["answers"])
    n = 0
    with concurrent.futures.ThreadPoolExecutor(12) as ex:
        for bad, k in ex.map(one, enumerate(cases)):
            n += k
            if bad:
                audit_mismatch(ctx, "ConfigValues lookup", bad[0])
    ctx.log("audit(%s): git config --get-all agreed with the specification on %d queries" % (tag, n))
    ctx.cov["git_audited_queries"] = ctx.cov.get("git_audited_queries", 0) + n


def audit_typed(ctx, typed, nerr):
    """--type=bool|int|path on the typed texts: all values the spec can convert in one file and one
    call per type; a sample of those the spec calls an error one by one."""
    d = os.path.join(ctx.work, "atyped")
    os.makedirs(d, exist_ok=True)
    env = {"HOME": HOME.decode()}
    head = b"[a]\n\tk"
    total = 0
    for ty, field in (("bool", "bool"), ("int", "int"), ("path", "path")):
        okc, errc = [], []
        for c in typed:
            a = c["answers"][0]
            assert bytes(c["input"]).startswith(head)
            if ty == "path" and not a["pathdom"]:
                continue
            (okc if a[field]["kind"] == "ok" else errc).append(c)
        p = os.path.join(d, ty + ".cfg")
        with open(p, "wb") as f:
            f.write(b"[t]\n")
            for i, c in enumerate(okc):
                f.write(b"\tk%d" % i + bytes(c["input"])[len(head):])
        r = git(["config", "-f", p, "-z", "--type=" + ty, "--get-regexp", r"^t\.k[0-9]+$"], env=env)
        got = {}
        for rec in r.stdout.split(b"\0")[:-1]:
            k, _, v = rec.partition(b"\n")
            got[k] = v
        for i, c in enumerate(okc):
            want = bytes(c["answers"][0][field]["v"])
            if r.returncode != 0 or got.get(b"t.k%d" % i) != want:
                audit_mismatch(ctx, "ConfigValues --type=" + ty, {"value": show_bytes(c["answers"][0]["string"]["v"]),
                                                                  "spec": want.decode("latin1"), "git": repr(got.get(b"t.k%d" % i)),
                                                                  "git_rc": r.returncode, "stderr": r.stderr.decode("latin1")[-200:]})
        total += len(okc)
        sample = errc if len(errc) <= nerr else [errc[i] for i in sorted(ctx.rng.sample(range(len(errc)), nerr))]

        def one(ic):
            i, c = ic
            q = os.path.join(d, "%s-e%d.cfg" % (ty, i))
            with open(q, "wb") as f:
                f.write(bytes(c["input"]))
            rr = git(["config", "-f", q, "-z", "--type=" + ty, "--get", "a.k"], env=env)
            os.remove(q)
            return c, rr
        with concurrent.futures.ThreadPoolExecutor(12) as ex:
            for c, rr in ex.map(one, enumerate(sample)):
                if rr.returncode == 0:
                    audit_mismatch(ctx, "ConfigValues --type=" + ty, {"value": show_bytes(c["answers"][0]["string"]["v"]),
                                                                      "spec": "error", "git": rr.stdout.decode("latin1")})
        total += len(sample)
    ctx.log("audit(typed): git config --type=bool|int|path agreed with the specification on %d conversions" % total)
    ctx.cov["git_audited_conversions"] = total


def events_of(c, g):
    evs = []
    for a, o in zip(c["answers"], g.get("answers", [])):
        evs.append({"input": c["input"], "q": qkey(a), "file_ok": True, "strings": o["strings"], "string": o["string"],
                    "bool": o["bool"], "int": o["int"], "path": o["path"]})
    return evs


def run(ctx):
    binary = ctx.build("vh-c27")
    plan = [("value", 4, "FALSE"), ("struct", 4, "FALSE"), ("typed", 3, "FALSE"), ("cont", 4, "FALSE")]
    if ctx.thorough:
        plan = [("value", 5, "FALSE"), ("value", 3, "TRUE"), ("struct", 4, "FALSE"), ("struct", 3, "TRUE"), ("typed", 3, "TRUE"), ("typed", 4, "FALSE"), ("cont", 5, "FALSE")]
    cases, typed, seen = [], [], set()
    for mode, mt, wide in plan:
        for c in ctx.tlc_gen("config", "ConfigValues_Gen", consts={"MaxToks": mt, "Mode": '"%s"' % mode, "Wide": wide}, workers=6):
            k = bytes(c["input"])
            if k in seen:
                continue
            seen.add(k)
            cases.append(c)
            if mode == "typed":
                typed.append(c)
    ctx.cov["exhaustive"] = True
    judged = [c for c in cases if c["indomain"]]
    ctx.cov["spec_valid"] = sum(c["valid"] for c in cases)
    ctx.cov["in_domain"] = len(judged)
    results = ctx.harness(binary, [hcase(c) for c in judged])
    nq = 0
    for c, r in zip(judged, results):
        judge_case(ctx, c, r, "gen")
        nq += len(c["answers"])
        if c["list"]:
            ctx.nontrivial(bytes(c["input"]))
    ctx.cov["queries_judged"] = nq
    mid = judged[len(judged) // 2]
    ctx.sample({"input": show_bytes(mid["input"]), "answers": [{"key": show_bytes(a["name"]), "values": [show_bytes(v) for v in a["values"]],
                                                               "bool": a["bool"]["kind"], "int": show_bytes(a["int"]["v"])} for a in mid["answers"][:2]]})

    # binding C
    tids = {id(c) for c in typed}
    others = [c for c in cases if id(c) not in tids]
    lim = 600 if not ctx.thorough else 4000
    sub = others if len(others) <= lim else [others[i] for i in sorted(ctx.rng.sample(range(len(others)), lim))]
    fmt.audit(ctx, sub, "list")
    lq = [c for c in sub if c["indomain"] and c["answers"]]
    audit_lookup(ctx, lq[: 250 if not ctx.thorough else 1500], "gen")
    audit_typed(ctx, typed, 120 if not ctx.thorough else 1500)

    # binding B: seeded random texts; the spec derives the queries from its own listing
    nr = 250 if not ctx.thorough else 1500
    rnd = [b2l(b) for b in fmt.BASES]
    while len(rnd) < nr:
        b = fmt.mutate(ctx.rng, ctx.rng.choice(fmt.BASES))
        if b"\0" not in b:
            rnd.append(b2l(b))
    rc = ctx.tlc_gen("config", "ConfigValues_Trace", cfg="ConfigValues_Eval.cfg", workers=1,
                     env={"TRACE": fmt.write_nd(ctx, [{"input": i} for i in rnd])})
    rj = [c for c in rc if c["indomain"]]
    res = ctx.harness(binary, [hcase(c) for c in rj])
    evs, own = [], []
    for i, (c, r) in enumerate(zip(rj, res)):
        judge_case(ctx, c, r, "random")
        if "got" in r and r["got"]["file_ok"]:
            for e in events_of(c, r["got"]):
                evs.append(e)
                own.append(i)
            if c["list"]:
                ctx.nontrivial(bytes(c["input"]))
    reported = {json.dumps(v["case"]["input"]) + json.dumps(v.get("query")) for v in ctx.seen if v["kind"] == "random"}
    for bi in ctx.tlc_trace("config", "ConfigValues_Trace", evs):
        e = evs[bi]
        if json.dumps(e["input"]) + json.dumps(e["q"]) in reported:
            continue   # the same event, already reported with its class by the direct comparison
        ctx.violation({"kind": "random-trace", "what": "answer rejected by ConfigValues_Trace", "classes": ["trace"],
                       "case": {"input": e["input"]}, "query": e["q"], "input_text": show_bytes(e["input"]), "event": e})
    ctx.cov["random_texts_in_domain"] = len(rj)
    fmt.audit(ctx, rc[:150] if not ctx.thorough else rc[:1000], "random")
    audit_lookup(ctx, rj[:60] if not ctx.thorough else rj[:200], "random")
    hist = {}
    for v in ctx.violations:
        k = v["kind"] + ":" + "+".join(v["classes"])
        hist[k] = hist.get(k, 0) + 1
    ctx.cov["violation_classes"] = hist
    ctx.cov["rule"] = ("A: every text of ConfigValues_Gen's value / structure / typed-value alphabets up to the configured length (exhaustive), "
                       "each key queried in 2-3 spellings through all getters; B: %d seeded mutations of real-world-shaped files. "
                       "Non-trivial = text in the judged domain with at least one entry; distinct by input bytes." % nr)
    ctx.assumptions += ["git 2.39.5 is the reference for the transcription (audited on every run: --list, --get-all, --type)",
                        "domain: no NUL; keys inside sections; no unquoted inner tab/CR in values; paths `~/x` or without leading `~`",
                        "documented deviations applied: legacy headers keep case / compare case-insensitively; implicit keys do not exist for single string/int/path getters"]


def replay(ctx, rec):
    binary = ctx.build("vh-c27")
    inp = rec["case"]["input"]
    rc = ctx.tlc_gen("config", "ConfigValues_Trace", cfg="ConfigValues_Eval.cfg", workers=1,
                     env={"TRACE": fmt.write_nd(ctx, [{"input": inp}])})
    c = rc[0]
    r = ctx.harness(binary, [hcase(c)])[0]
    judge_case(ctx, c, r, rec.get("kind", "replay"))
