"""Runner library for the gitoxide TLA+ model-based verification checks.

A check (driver/props/cXX.py) combines:
  * TLC on a design module (exhaustive small instance; invariants / liveness)         -> ctx.tlc_mc
  * binding A: TLC enumerates cases/behaviours + the spec's expected result,           -> ctx.tlc_gen
               the Rust harness replays them against /repo's current tree              -> ctx.harness
  * binding B: events recorded from the real code are validated by a *_Trace module    -> ctx.tlc_trace
  * binding C: audit of the specification against the installed git                    -> ctx.audit_*

Exit codes: 0 held; 1 + "VIOLATION property=<id> replay=<path>"; 2 tool error (never a verdict).
"""
import hashlib
import json
import os
import random
import re
import shutil
import subprocess
import sys
import time

VERIF = os.path.dirname(os.path.dirname(os.path.abspath(__file__)))
REPO = os.environ.get("VERIF_REPO", "/repo")
SPEC = os.path.join(VERIF, "spec")
HARNESS = os.path.join(VERIF, "harness")
TLA_CP = "/opt/veriftools/tla/tla2tools.jar:/opt/veriftools/tla/CommunityModules-deps.jar"
WORK_ROOT = os.environ.get("VERIF_TMP", os.path.join(VERIF, ".work"))


class ToolError(Exception):
    """Failure of the machinery itself (exit 2) - never reported as a property violation."""


def b2l(b):
    """bytes -> JSON int list"""
    return list(b)


def l2b(l):
    return bytes(l)


def show_bytes(l):
    try:
        return bytes(l).decode("utf-8", "backslashreplace")
    except Exception:
        return repr(l)


class TlcResult:
    def __init__(self, out, rc):
        self.out = out
        self.rc = rc
        m = re.search(r"(\d+) states generated, (\d+) distinct states found", out)
        self.generated = int(m.group(1)) if m else 0
        self.distinct = int(m.group(2)) if m else 0
        m = re.search(r"depth of the complete state graph search is (\d+)", out)
        self.depth = int(m.group(1)) if m else 0
        self.violated = re.findall(r"Invariant (\S+) is violated", out)
        self.violated += re.findall(r"Error: Action property (\S+) is violated", out)
        if "Temporal properties were violated" in out or re.search(r"Temporal property \S+ was violated", out):
            self.violated.append("<temporal>")
        if "Deadlock reached" in out:
            self.violated.append("<deadlock>")
        self.error = None
        if not self.violated:
            m = re.search(r"^Error: (.*)$", out, re.M)
            if m or rc not in (0,):
                self.error = (m.group(1) if m else "exit %d" % rc)
        self.finished = "Model checking completed" in out or "Finished in" in out

    def cases(self, tag="CASE"):
        """JSON payloads printed as <<"TAG", "<json>">> by PrintT(ToJson(..))."""
        res = []
        pre = '<<"%s", ' % tag
        for line in self.out.splitlines():
            if line.startswith(pre) and line.endswith(">>"):
                lit = line[len(pre):-2]
                res.append(json.loads(json.loads(lit)))
        return res

    def coverage(self):
        """action name -> (distinct, total) from -coverage 1 output (last report)."""
        cov = {}
        for m in re.finditer(r"^<(\w+) line \d+, col \d+ to line \d+, col \d+ of module (\w+)>: (\d+):(\d+)", self.out, re.M):
            cov[m.group(1)] = (int(m.group(3)), int(m.group(4)))
        return cov

    def final_state_var(self, var):
        """value text of `var` in the last printed state of a counterexample"""
        ms = re.findall(r"^/?\\?\s*%s = (.*)$" % re.escape(var), self.out, re.M)
        return ms[-1] if ms else None


class Ctx:
    def __init__(self, pid, tier, seed, level):
        self.pid = pid
        self.tier = tier
        self.seed = seed
        self.level = level
        self.rng = random.Random(seed)
        self.t0 = time.time()
        self.work = os.path.join(WORK_ROOT, "%s-%d" % (pid, os.getpid()))
        shutil.rmtree(self.work, ignore_errors=True)
        os.makedirs(self.work, exist_ok=True)
        self.violations = []
        self.seen = []          # every record passed to violation(), also those matched by a known finding
        self.known_hits = {}
        self.cov = {
            "evaluations": 0,
            "distinct_nontrivial": 0,
            "rule": "",
            "samples": [],
            "states": 0,
            "transitions": 0,
            "traces_validated_against_impl": 0,
            "exhaustive": False,
            "tlc_runs": [],
        }
        self.assumptions = []
        self._nontrivial = set()
        self.findings = load_findings(pid)
        self.notes = []

    @property
    def thorough(self):
        return self.tier == "thorough"

    def log(self, *a):
        print("[%s %6.1fs]" % (self.pid, time.time() - self.t0), *a, flush=True)

    # ---------------------------------------------------------------- TLC
    def _tlc(self, spec_dir, module, cfg_text, workers, timeout, env=None, extra=(), sim=None, xmx="8g", dfs=False):
        spec_dir = os.path.join(SPEC, spec_dir)
        run_id = "%s-%d" % (module, len(self.cov["tlc_runs"]))
        cfg_path = os.path.join(self.work, run_id + ".cfg")
        with open(cfg_path, "w") as f:
            f.write(cfg_text)
        meta = os.path.join(self.work, "meta-" + run_id)
        jopts = ["-XX:+UseParallelGC", "-Xss1g", "-Xmx" + xmx, "-DTLA-Library=" + os.path.join(SPEC, "lib"),
                 "-Djava.io.tmpdir=" + self.work]      # TLC unpacks its standard modules there; removed with the work directory
        if dfs:
            jopts.append("-Dtlc2.tool.queue.IStateQueue=StateDeque")
        cmd = ["java"] + jopts + ["-cp", TLA_CP, "tlc2.TLC", "-workers", str(workers), "-metadir", meta,
                                    "-cleanup", "-noGenerateSpecTE", "-config", cfg_path]
        if sim:
            cmd += ["-simulate", sim, "-depth", "200", "-seed", str(self.seed)]
        cmd += list(extra) + [module + ".tla"]
        e = dict(os.environ)
        e.pop("JAVA_TOOL_OPTIONS", None)
        if env:
            e.update(env)
        t = time.time()
        try:
            p = subprocess.run(cmd, cwd=spec_dir, env=e, stdout=subprocess.PIPE, stderr=subprocess.STDOUT,
                               timeout=timeout, text=True, errors="replace")
        except subprocess.TimeoutExpired as ex:
            shutil.rmtree(meta, ignore_errors=True)
            if sim:
                out = ex.stdout or ""
                if isinstance(out, bytes):
                    out = out.decode("utf-8", "replace")
                r = TlcResult(out, 0)
                r.error = None
                return r
            raise ToolError("TLC timeout (%ss) on %s" % (timeout, module))
        shutil.rmtree(meta, ignore_errors=True)
        r = TlcResult(p.stdout, p.returncode)
        r.wall = time.time() - t
        self.cov["tlc_runs"].append({"module": module, "generated": r.generated, "distinct": r.distinct,
                                     "wall_s": round(r.wall, 1), "mode": "simulate" if sim else "bfs"})
        return r

    def cfg(self, spec_dir, name, consts=None):
        text = open(os.path.join(SPEC, spec_dir, name)).read()
        for k, v in (consts or {}).items():
            text2, n = re.subn(r"^(\s*%s\s*=\s*).*$" % re.escape(k), lambda m: m.group(1) + str(v), text, flags=re.M)
            if n == 0:
                raise ToolError("constant %s not in %s" % (k, name))
            text = text2
        return text

    def tlc_mc(self, spec_dir, module, cfg=None, consts=None, workers=8, timeout=1800, expect_violation=None,
               coverage=True, must_cover=(), sim=None, xmx="8g"):
        """Model-check a design module. Any violated property of the *model* is a tool error
        (the model is my machinery) unless expect_violation names it (self-tests)."""
        cfg_text = self.cfg(spec_dir, cfg or (module + ".cfg"), consts)
        extra = ["-coverage", "1"] if coverage else []
        r = self._tlc(spec_dir, module, cfg_text, workers, timeout, extra=extra, sim=sim, xmx=xmx)
        if expect_violation is not None:
            if expect_violation not in r.violated:
                raise ToolError("self-test: %s expected to violate %s, got %s / %s" % (module, expect_violation, r.violated, r.error))
            return r
        if r.violated:
            self._dump(module + ".tlc.out", r.out)
            raise ToolError("model %s violates %s (see %s)" % (module, r.violated, self.work))
        if r.error:
            self._dump(module + ".tlc.out", r.out)
            raise ToolError("TLC error in %s: %s" % (module, r.error))
        self.cov["states"] += r.distinct
        self.cov["transitions"] += r.generated
        if must_cover:
            cov = r.coverage()
            for a in must_cover:
                if a not in cov or cov[a][1] == 0:
                    raise ToolError("vacuity: action %s of %s never taken" % (a, module))
        self.log("TLC %s: %d generated, %d distinct, %.1fs" % (module, r.generated, r.distinct, r.wall))
        return r

    def tlc_gen(self, spec_dir, module, cfg=None, consts=None, workers=8, timeout=1800, tag="CASE", sim=None, env=None):
        """Run a *_Gen module: returns the list of JSON cases it printed. Invariants of the
        generator module (design-level statements) must hold, else tool error."""
        cfg_text = self.cfg(spec_dir, cfg or (module + ".cfg"), consts)
        r = self._tlc(spec_dir, module, cfg_text, workers, timeout, sim=sim, env=env)
        if r.violated or r.error:
            self._dump(module + ".tlc.out", r.out)
            raise ToolError("generator %s: violated=%s error=%s (see %s)" % (module, r.violated, r.error, self.work))
        cases = r.cases(tag)
        self.cov["states"] += r.distinct
        self.cov["transitions"] += r.generated
        self.log("TLC %s: %d cases, %d distinct states, %.1fs" % (module, len(cases), r.distinct, r.wall))
        if not cases:
            self._dump(module + ".tlc.out", r.out)
            raise ToolError("generator %s produced no cases" % module)
        return cases

    def tlc_trace(self, spec_dir, module, events, cfg=None, var="l", timeout=1800, consts=None, xmx="4g", env=None):
        """Validate recorded events with a *_Trace module (TLC as reference interpreter / trace
        acceptor). Returns the list of 0-based indices of events the specification does not
        explain ([] = accepted). Two styles of trace module are understood:
          * judging modules print <<"REJECT", l>> for every event they reject and go on;
          * acceptor modules (stateful) stop at the first event without an enabled action: the
            run then ends at depth < events + 1 (or violates an invariant) and the position is
            read from the postcondition's <<"REJECTED-AT", l>> line or the last state's `l`."""
        path = os.path.join(self.work, "%s-%d.ndjson" % (module, len(self.cov["tlc_runs"])))
        with open(path, "w") as f:
            for ev in events:
                f.write(json.dumps(ev, separators=(",", ":")) + "\n")
        if not events:
            return []
        cfg_text = self.cfg(spec_dir, cfg or (module + ".cfg"), consts)
        e2 = {"TRACE": path}
        if env:
            e2.update(env)
        r = self._tlc(spec_dir, module, cfg_text, 1, timeout, env=e2, dfs=True, xmx=xmx)
        self.cov["transitions"] += r.generated
        self.cov["states"] += r.distinct
        rejects = sorted({int(x) - 1 for x in re.findall(r'^<<"REJECT", (\d+)>>', r.out, re.M)})
        m = re.search(r'<<"REJECTED-AT", (\d+)>>', r.out)
        if m:
            rejects = sorted(set(rejects) | {int(m.group(1)) - 1})
        elif r.violated:
            v = r.final_state_var(var)
            if v is None or not v.strip().isdigit():
                self._dump(module + ".tlc.out", r.out)
                raise ToolError("trace %s rejected but position unreadable" % module)
            rejects = sorted(set(rejects) | {int(v) - 1})
        elif r.error:
            self._dump(module + ".tlc.out", r.out)
            raise ToolError("TLC error in %s: %s" % (module, r.error))
        elif r.depth != len(events) + 1:
            self._dump(module + ".tlc.out", r.out)
            raise ToolError("trace %s: depth %d != %d events + 1 and no rejection reported" % (module, r.depth, len(events)))
        if not rejects:
            self.cov["traces_validated_against_impl"] += 1
        self.log("TLC %s: %d events, %d rejected, %.1fs" % (module, len(events), len(rejects), r.wall))
        return rejects

    def _dump(self, name, text):
        keep = os.path.join(VERIF, ".work", "last-errors")
        os.makedirs(keep, exist_ok=True)
        with open(os.path.join(keep, "%s-%s" % (self.pid, name)), "w") as f:
            f.write(text)

    # ---------------------------------------------------------------- harness
    def build(self, crate):
        """Build one executor from /repo's current working tree (hooks on). Returns binary path."""
        t = time.time()
        lock = os.path.join(HARNESS, "Cargo.lock")
        if not os.path.exists(lock):
            shutil.copy(os.path.join(REPO, "Cargo.lock"), lock)
        e = dict(os.environ)
        e["CARGO_NET_OFFLINE"] = "true"
        cmd = ["cargo", "build", "--offline", "-q", "-p", crate]
        p = subprocess.run(cmd, cwd=HARNESS, env=e, stdout=subprocess.PIPE, stderr=subprocess.STDOUT, text=True)
        if p.returncode != 0 and "failed to select a version" in p.stdout:
            # cargo prunes unused entries from the lock file; a crate that needs one again cannot be resolved
            # offline (yanked versions): start over from the repository's own lock file
            shutil.copy(os.path.join(REPO, "Cargo.lock"), lock)
            p = subprocess.run(cmd, cwd=HARNESS, env=e, stdout=subprocess.PIPE, stderr=subprocess.STDOUT, text=True)
        if p.returncode != 0:
            self._dump("build.out", p.stdout)
            raise ToolError("harness build failed for %s:\n%s" % (crate, p.stdout[-3000:]))
        self.log("built %s in %.1fs" % (crate, time.time() - t))
        # run a private copy: another check that builds the same executor meanwhile replaces the file in target/
        # (executors that start themselves again as worker processes could not find it for a moment)
        bindir = os.path.join(self.work, "bin")
        os.makedirs(bindir, exist_ok=True)
        private = os.path.join(bindir, crate)
        shutil.copy2(os.path.join(HARNESS, "target", "debug", crate), private)
        return private

    def harness(self, binary, cases, timeout=600, env=None, per_case_timeout=None, max_failures=None):
        """Execute cases; returns list of result dicts aligned with cases:
        {"got":..} | {"panic": msg} | {"hang": True} | {"abort": rc}."""
        tag = "%d" % len(os.listdir(self.work))
        inp = os.path.join(self.work, "cases-%s.ndjson" % tag)
        outp = os.path.join(self.work, "out-%s.ndjson" % tag)
        with open(inp, "w") as f:
            for c in cases:
                f.write(json.dumps(c, separators=(",", ":")) + "\n")
        results = [None] * len(cases)
        start = 0
        e = dict(os.environ)
        e["VERIF_WORK"] = self.work
        if env:
            e.update(env)
        if os.path.exists(outp):
            os.remove(outp)
        restarts = 0
        while start < len(cases):
            status = None
            try:
                p = subprocess.run([binary, inp, outp, str(start)], env=e, timeout=timeout,
                                   stdout=subprocess.PIPE, stderr=subprocess.PIPE)
                if p.returncode != 0:
                    status = {"abort": p.returncode, "stderr": p.stderr.decode("utf-8", "replace")[-500:]}
            except subprocess.TimeoutExpired:
                status = {"hang": True}
            done = 0
            if os.path.exists(outp):
                with open(outp) as f:
                    for line in f:
                        if not line.endswith("\n"):
                            break
                        r = json.loads(line)
                        results[r["i"]] = r
                        done = max(done, r["i"] + 1)
            if status is None:
                break
            # the case after the last completed one is the culprit
            culprit = max(done, start)
            if culprit >= len(cases):
                raise ToolError("harness %s failed after finishing all cases: %s" % (binary, status))
            if "hang" in status and per_case_timeout is None and restarts == 0 and culprit > start:
                # re-run from the culprit once so that the deadline applies to it alone
                restarts += 1
                start = culprit
                continue
            restarts = 0
            status["i"] = culprit
            results[culprit] = status
            failures = sum(1 for r in results if r is not None and ("hang" in r or "abort" in r))
            if max_failures is not None and failures >= max_failures:
                # enough evidence; the remaining cases of this batch are not executed
                for k in range(len(results)):
                    if results[k] is None:
                        results[k] = {"i": k, "skipped": True}
                break
            # keep the file consistent for append mode
            with open(outp, "a") as f:
                f.write(json.dumps(status) + "\n")
            start = culprit + 1
        for i, r in enumerate(results):
            if r is None:
                raise ToolError("harness %s produced no result for case %d" % (binary, i))
        self.cov["evaluations"] += len(cases)
        return results

    # ---------------------------------------------------------------- verdicts
    def nontrivial(self, key):
        """count a distinct non-trivial case (key must be hashable/serialisable)"""
        if not isinstance(key, (str, bytes, int, tuple)):
            key = json.dumps(key, sort_keys=True)
        self._nontrivial.add(key)

    def sample(self, s, limit=5):
        if len(self.cov["samples"]) < limit:
            self.cov["samples"].append(s)

    def violation(self, record):
        """record: JSON-serialisable description sufficient to replay (must contain 'case')."""
        record = dict(record)
        record["property"] = self.pid
        self.seen.append(record)
        for f in self.findings:
            if f.get("status") == "known" and finding_matches(f, record):
                k = f["id"]
                if k not in self.known_hits:
                    self.known_hits[k] = (f, record)
                return False
        self.violations.append(record)
        return True

    def finish(self):
        for k, (f, rec) in sorted(self.known_hits.items()):
            print("KNOWN-FINDING: property=%s %s" % (self.pid, f["what"]), flush=True)
        self.cov["distinct_nontrivial"] = len(self._nontrivial)
        ev = {
            "property_id": self.pid,
            "tier": self.tier,
            "seed": self.seed,
            "level": self.level,
            "coverage": self.cov,
            "assumptions": self.assumptions,
            "wall_s": round(time.time() - self.t0, 1),
            "violations": len(self.violations),
        }
        if self.known_hits:
            ev["known_findings_observed"] = sorted(self.known_hits)
        os.makedirs(os.path.join(VERIF, "evidence"), exist_ok=True)
        with open(os.path.join(VERIF, "evidence", self.pid + ".json"), "w") as f:
            json.dump(ev, f, indent=1, sort_keys=True)
            f.write("\n")
        shutil.rmtree(self.work, ignore_errors=True)
        if self.violations:
            os.makedirs(os.path.join(VERIF, "replays"), exist_ok=True)
            seen = set()
            maxv = int(os.environ.get("VERIF_MAXV", "5"))
            for rec in self.violations[:maxv]:
                blob = json.dumps(rec, sort_keys=True)
                h = hashlib.sha1(blob.encode()).hexdigest()[:12]
                if h in seen:
                    continue
                seen.add(h)
                path = os.path.join(VERIF, "replays", "%s-%s.json" % (self.pid, h))
                with open(path, "w") as f:
                    f.write(json.dumps(rec, indent=1, sort_keys=True) + "\n")
                print("VIOLATION property=%s replay=%s" % (self.pid, path), flush=True)
                print("  " + blob[:400], flush=True)
            if len(self.violations) > maxv:
                print("  (+%d more violations not written)" % (len(self.violations) - maxv))
            return 1
        print("OK property=%s tier=%s evaluations=%d nontrivial=%d states=%d traces=%d wall=%.1fs" % (
            self.pid, self.tier, self.cov["evaluations"], self.cov["distinct_nontrivial"], self.cov["states"],
            self.cov["traces_validated_against_impl"], time.time() - self.t0), flush=True)
        return 0


# -------------------------------------------------------------------- known findings
def load_findings(pid):
    path = os.path.join(VERIF, "known_findings.json")
    if not os.path.exists(path):
        return []
    data = json.load(open(path))
    return [f for f in data.get("findings", []) if f.get("property") == pid]


def _get(rec, dotted):
    cur = rec
    for part in dotted.split("."):
        if isinstance(cur, dict) and part in cur:
            cur = cur[part]
        elif isinstance(cur, list) and part.isdigit() and int(part) < len(cur):
            cur = cur[int(part)]
        else:
            return None
    return cur


def finding_matches(f, rec):
    """A finding's matcher is a dict dotted-path -> expected value | {"regex": ..} | {"in": [...]}.
    All entries must match. It identifies the specific failing input/call site, so that a
    different violation of the same property is still reported."""
    m = f.get("match") or {}
    if not m:
        return False
    for k, want in m.items():
        got = json.dumps(rec, sort_keys=True) if k == "$json" else _get(rec, k)
        if isinstance(want, dict) and "regex" in want:
            if not isinstance(got, str) or not re.search(want["regex"], got):
                return False
        elif isinstance(want, dict) and "in" in want:
            if got not in want["in"]:
                return False
        elif isinstance(want, dict) and ("subset_of" in want or "intersects" in want):
            if not isinstance(got, list):
                return False
            if "subset_of" in want and not set(map(str, got)) <= set(want["subset_of"]):
                return False
            if "intersects" in want and not set(map(str, got)) & set(want["intersects"]):
                return False
        elif got != want:
            return False
    return True


# -------------------------------------------------------------------- git helpers (binding C)
def git(args, cwd=None, input=None, env=None, check=False, timeout=120):
    e = dict(os.environ)
    e.update({"GIT_CONFIG_NOSYSTEM": "1", "GIT_CONFIG_GLOBAL": "/dev/null", "HOME": WORK_ROOT, "LC_ALL": "C",
              "GIT_AUTHOR_NAME": "A", "GIT_AUTHOR_EMAIL": "a@x", "GIT_COMMITTER_NAME": "C",
              "GIT_COMMITTER_EMAIL": "c@x", "GIT_AUTHOR_DATE": "1000000000 +0000",
              "GIT_COMMITTER_DATE": "1000000000 +0000", "GIT_TERMINAL_PROMPT": "0"})
    if env:
        e.update(env)
    p = subprocess.run(["git"] + list(args), cwd=cwd, input=input, env=e, stdout=subprocess.PIPE,
                       stderr=subprocess.PIPE, timeout=timeout)
    if check and p.returncode != 0:
        raise ToolError("git %s failed: %s" % (" ".join(map(str, args)), p.stderr.decode("utf-8", "replace")[-400:]))
    return p


def audit_mismatch(ctx, what, detail):
    """Specification disagrees with git: the transcription (my machinery) is wrong -> exit 2."""
    raise ToolError("AUDIT spec-vs-git mismatch in %s: %s" % (what, json.dumps(detail)[:800]))
