#!/usr/bin/env python3
"""Regenerate /verif/MANIFEST.json from the per-property driver modules (driver/props/cXX.py:
LEVEL, and optional META = {text, note, technique, design_ref, engine}). Properties without a
module are listed under not_applicable with the reason in NOT_BUILT / NOT_APPLICABLE below."""
import importlib
import json
import os
import subprocess
import sys

VERIF = os.path.dirname(os.path.dirname(os.path.abspath(__file__)))
sys.path.insert(0, os.path.join(VERIF, "driver"))

NOT_APPLICABLE = {
}

def main():
    props = [json.loads(l) for l in open(os.path.join(VERIF, "properties.jsonl"))]
    checks, na, engines = [], [], {}
    for p in props:
        pid = p["id"]
        path = os.path.join(VERIF, "driver", "props", pid.lower() + ".py")
        if pid in NOT_APPLICABLE:
            na.append({"property_id": pid, "reason": NOT_APPLICABLE[pid]})
            continue
        ready = open(os.path.join(VERIF, "driver", "ready.txt")).read().split()
        if not os.path.exists(path) or pid not in ready:
            na.append({"property_id": pid, "reason": "no specification-bound check has been built for this property yet (planned in DESIGN.md section 5); it is not claimed"})
            continue
        mod = importlib.import_module("props." + pid.lower())
        meta = getattr(mod, "META", {})
        doc = (mod.__doc__ or "").strip()
        eng = meta.get("engine", "spec")
        engines.setdefault(eng, []).append(pid)
        checks.append({
            "property_id": pid,
            "quick_cmd": "./check %s --tier quick" % pid,
            "thorough_cmd": "./check %s --tier thorough" % pid,
            "evidence_file": "/verif/evidence/%s.json" % pid,
            "replay_cmd_template": "./check %s --replay {path}" % pid,
            "engine": eng,
            "level_claimed": {
                "category": mod.LEVEL,
                "text": meta.get("text", doc.split("\n\n")[0][:900]),
                "design_ref": meta.get("design_ref", "DESIGN.md section 5, %s" % pid),
            },
            "level_note": meta.get("note", "Trusted: TLC, the transcription of git's rule in the TLA+ module (audited against git 2.39.5 where the check says so), the harness adapter. Bounds as stated in the evidence file's rule."),
            "technique": meta.get("technique", "TLA+ specification checked with TLC; TLC-generated cases replayed in the real code and recorded events validated by TLC trace specs"),
        })
    hooks_commits = []
    try:
        out = subprocess.run(["git", "-C", "/repo", "log", "--format=%H %s"], stdout=subprocess.PIPE, text=True).stdout
        hooks_commits = [l.split()[0] for l in out.splitlines() if " hook" in l.lower() and l.split(" ", 1)[1].startswith("verif")]
    except Exception:
        pass
    man = {
        "version": 1,
        "setup_cmd": "./check --setup",
        "hooks": {
            "guard": "gix_verif",
            "enable": "RUSTFLAGS='--cfg gix_verif' via /verif/harness/.cargo/config.toml (the harness workspace builds /repo's crates as path dependencies with the cfg set); plain builds of /repo never set it",
            "baseline_off_cmd": "cd /repo && cargo nextest run --workspace --no-fail-fast --test-threads 8 --offline || cargo test --workspace --no-fail-fast --offline",
            "source_commits": hooks_commits,
            "add_only": True,
        },
        "engines": [{"name": k, "path": "/verif/spec", "serves_properties": v,
                     "kind_free_text": "TLA+ modules under /verif/spec checked with TLC; Rust executors under /verif/harness; python driver under /verif/driver"} for k, v in sorted(engines.items())],
        "checks": checks,
        "not_applicable": na,
        "notes": "Every check: ./check <id> --tier quick|thorough; exit 0 held, 1 + VIOLATION line, 2 tool error. See DESIGN.md.",
    }
    with open(os.path.join(VERIF, "MANIFEST.json"), "w") as f:
        json.dump(man, f, indent=1)
        f.write("\n")
    print("MANIFEST: %d checks, %d not_applicable" % (len(checks), len(na)))
    try:
        import jsonschema
        jsonschema.validate(man, json.load(open("/root/.vp/MANIFEST.schema.json")))
        print("schema ok")
    except ImportError:
        pass

if __name__ == "__main__":
    main()
