#!/bin/bash
# usage: driver/seeded_eval.sh [ID...]   (default: every change under seeded/)
# Applies each seeded change to /repo, runs the property's quick check, undoes the change straight afterwards.
# Nothing else may build from /repo while this runs. Expected: every line ends with rc=1 (caught).
cd /verif
[ $# -eq 0 ] && set -- $(ls seeded)
if [ -n "$(git -C /repo status --porcelain)" ]; then echo "/repo is not clean"; exit 2; fi
for id in "$@"; do
  src=/verif/seeded/$id
  [ -f $src/patch.diff ] || { echo "$id no patch"; continue; }
  if ! git -C /repo apply --check $src/patch.diff 2>/dev/null; then echo "$id PATCH-DOES-NOT-APPLY-TO-CURRENT-REPO"; continue; fi
  git -C /repo apply $src/patch.diff
  rm -f replays/$id-*
  VERIF_MAXV=3 ./check $id > .work/seeded-$id.log 2>&1; rc=$?
  git -C /repo checkout -- .
  echo "$id rc=$rc $(grep -c '^VIOLATION' .work/seeded-$id.log) violations"
done
# evidence files were rewritten by runs against changed code: run the checks again on the unchanged tree afterwards
