/* LD_PRELOAD shim for C20: counts the file-system mutations a process performs through libc and,
 * when CRASH_AT=n > 0, terminates the process (as if killed) right BEFORE its n-th mutation.
 * With CRASH_AT=0 it only counts and writes the total to $CRASH_COUNT_FILE at normal exit.
 * Mutations: rename*, unlink*, rmdir, mkdir*, link*, symlink*, ftruncate, truncate, open.. and creat with
 * write intent (O_WRONLY|O_RDWR|O_CREAT|O_TRUNC|O_APPEND), write/pwrite/writev to descriptors > 2. */
#define _GNU_SOURCE
#include <dlfcn.h>
#include <fcntl.h>
#include <stdarg.h>
#include <stdio.h>
#include <stdlib.h>
#include <string.h>
#include <sys/stat.h>
#include <sys/types.h>
#include <sys/uio.h>
#include <unistd.h>

#include <signal.h>
static long counter = 0;
static long crash_at = -1;
static long signal_at = 0;   /* C23: deliver SIGNAL_NO (default SIGTERM) to ourselves right before the n-th mutation */
static int signal_no = SIGTERM;

static void init(void) {
    if (crash_at >= 0) return;
    const char *s = getenv("CRASH_AT");
    crash_at = s ? atol(s) : 0;
    s = getenv("SIGNAL_AT");
    signal_at = s ? atol(s) : 0;
    s = getenv("SIGNAL_NO");
    if (s) signal_no = atoi(s);
}

static void hit(void) {
    init();
    counter++;
    if (crash_at > 0 && counter == crash_at) _exit(99);
    if (signal_at > 0 && counter == signal_at) kill(getpid(), signal_no);
}

__attribute__((destructor)) static void fini(void) {
    const char *f = getenv("CRASH_COUNT_FILE");
    if (!f) return;
    int (*real_open)(const char *, int, ...) = dlsym(RTLD_NEXT, "open");
    ssize_t (*real_write)(int, const void *, size_t) = dlsym(RTLD_NEXT, "write");
    int fd = real_open(f, O_WRONLY | O_CREAT | O_TRUNC, 0644);
    if (fd < 0) return;
    char buf[32];
    int n = snprintf(buf, sizeof buf, "%ld\n", counter);
    real_write(fd, buf, n);
    close(fd);
}

#define WRITE_INTENT(flags) (((flags) & (O_WRONLY | O_RDWR | O_CREAT | O_TRUNC | O_APPEND)) != 0)

#define OPEN_WRAPPER(NAME)                                                 \
    int NAME(const char *path, int flags, ...) {                           \
        static int (*real)(const char *, int, ...) = NULL;                 \
        if (!real) real = dlsym(RTLD_NEXT, #NAME);                         \
        mode_t mode = 0;                                                   \
        if (flags & (O_CREAT | O_TMPFILE)) {                               \
            va_list ap; va_start(ap, flags); mode = va_arg(ap, mode_t); va_end(ap); \
        }                                                                  \
        if (WRITE_INTENT(flags)) hit();                                    \
        return real(path, flags, mode);                                    \
    }
OPEN_WRAPPER(open)
OPEN_WRAPPER(open64)

#define OPENAT_WRAPPER(NAME)                                               \
    int NAME(int dirfd, const char *path, int flags, ...) {                \
        static int (*real)(int, const char *, int, ...) = NULL;            \
        if (!real) real = dlsym(RTLD_NEXT, #NAME);                         \
        mode_t mode = 0;                                                   \
        if (flags & (O_CREAT | O_TMPFILE)) {                               \
            va_list ap; va_start(ap, flags); mode = va_arg(ap, mode_t); va_end(ap); \
        }                                                                  \
        if (WRITE_INTENT(flags)) hit();                                    \
        return real(dirfd, path, flags, mode);                             \
    }
OPENAT_WRAPPER(openat)
OPENAT_WRAPPER(openat64)

int creat(const char *path, mode_t mode) {
    static int (*real)(const char *, mode_t) = NULL;
    if (!real) real = dlsym(RTLD_NEXT, "creat");
    hit();
    return real(path, mode);
}

#define WRAP2(RET, NAME, T1, A1, T2, A2)                                   \
    RET NAME(T1 A1, T2 A2) {                                               \
        static RET (*real)(T1, T2) = NULL;                                 \
        if (!real) real = dlsym(RTLD_NEXT, #NAME);                         \
        hit();                                                             \
        return real(A1, A2);                                               \
    }
#define WRAP1(RET, NAME, T1, A1)                                           \
    RET NAME(T1 A1) {                                                      \
        static RET (*real)(T1) = NULL;                                     \
        if (!real) real = dlsym(RTLD_NEXT, #NAME);                         \
        hit();                                                             \
        return real(A1);                                                   \
    }
WRAP2(int, rename, const char *, a, const char *, b)
WRAP1(int, unlink, const char *, a)
WRAP1(int, rmdir, const char *, a)
WRAP2(int, mkdir, const char *, a, mode_t, m)
WRAP2(int, link, const char *, a, const char *, b)
WRAP2(int, symlink, const char *, a, const char *, b)
WRAP2(int, truncate, const char *, a, off_t, l)
WRAP2(int, ftruncate, int, fd, off_t, l)

int renameat(int a, const char *b, int c, const char *d) {
    static int (*real)(int, const char *, int, const char *) = NULL;
    if (!real) real = dlsym(RTLD_NEXT, "renameat");
    hit();
    return real(a, b, c, d);
}
int renameat2(int a, const char *b, int c, const char *d, unsigned int f) {
    static int (*real)(int, const char *, int, const char *, unsigned int) = NULL;
    if (!real) real = dlsym(RTLD_NEXT, "renameat2");
    hit();
    return real(a, b, c, d, f);
}
int unlinkat(int a, const char *b, int f) {
    static int (*real)(int, const char *, int) = NULL;
    if (!real) real = dlsym(RTLD_NEXT, "unlinkat");
    hit();
    return real(a, b, f);
}
int mkdirat(int a, const char *b, mode_t m) {
    static int (*real)(int, const char *, mode_t) = NULL;
    if (!real) real = dlsym(RTLD_NEXT, "mkdirat");
    hit();
    return real(a, b, m);
}
int linkat(int a, const char *b, int c, const char *d, int f) {
    static int (*real)(int, const char *, int, const char *, int) = NULL;
    if (!real) real = dlsym(RTLD_NEXT, "linkat");
    hit();
    return real(a, b, c, d, f);
}
/* closing a descriptor is a point of interest for signal delivery (C23) only */
int close(int fd) {
    static int (*real)(int) = NULL;
    if (!real) real = dlsym(RTLD_NEXT, "close");
    init();
    if (fd > 2 && getenv("SIGNAL_COUNT_CLOSE")) hit();
    return real(fd);
}
ssize_t write(int fd, const void *buf, size_t n) {
    static ssize_t (*real)(int, const void *, size_t) = NULL;
    if (!real) real = dlsym(RTLD_NEXT, "write");
    if (fd > 2) hit();
    return real(fd, buf, n);
}
ssize_t pwrite(int fd, const void *buf, size_t n, off_t o) {
    static ssize_t (*real)(int, const void *, size_t, off_t) = NULL;
    if (!real) real = dlsym(RTLD_NEXT, "pwrite");
    if (fd > 2) hit();
    return real(fd, buf, n, o);
}
ssize_t writev(int fd, const struct iovec *iov, int cnt) {
    static ssize_t (*real)(int, const struct iovec *, int) = NULL;
    if (!real) real = dlsym(RTLD_NEXT, "writev");
    if (fd > 2) hit();
    return real(fd, iov, cnt);
}
