//! C54 executor: `gix_fsck::Connectivity::check_commit` on materialised worlds with deleted objects.
//! case: {"objects": <objects dir>, "worlds": [[commit hex, ..], ..]}
//!   one `Connectivity` per world, `check_commit` for every commit of the world in the given order.
//! got: {"worlds": [{"missing": [[hex, "blob"|"tree"|..], ..], "errors": [text, ..]} | {"panic": text}, ..]}
use gix_hash::ObjectId;
use vhlib::*;

fn main() {
    run(|case| {
        let mut odb = gix_odb::at(jstr(&case["objects"])).expect("open object database");
        odb.refresh_never();
        let mut out = Vec::new();
        for world in case["worlds"].as_array().expect("worlds") {
            let commits: Vec<ObjectId> = world
                .as_array()
                .expect("commits")
                .iter()
                .map(|x| ObjectId::from_hex(jstr(x).as_bytes()).expect("hex id"))
                .collect();
            let res = guarded(|| {
                let mut missing = Vec::new();
                let mut errors = Vec::new();
                {
                    let mut check = gix_fsck::Connectivity::new(&odb, |id: &ObjectId, kind: gix_object::Kind| {
                        missing.push(json!([id.to_string(), kind.to_string()]));
                    });
                    for c in &commits {
                        if let Err(e) = check.check_commit(c) {
                            errors.push(Json::from(e.to_string()));
                        }
                    }
                }
                json!({"missing": missing, "errors": errors})
            });
            out.push(match res {
                Ok(v) => v,
                Err(msg) => json!({"panic": msg}),
            });
        }
        json!({"worlds": out})
    });
}
