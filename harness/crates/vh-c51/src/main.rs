//! C51 executor: the parallel helpers of gix-features.
//! op "in_parallel" | "slice" | "stepwise": {"n": items, "threads": limit, "fail": item at which reduce/consume fails (0 none), "seed": jitter,
//!                                           "drop_after": (stepwise) results to take before dropping the iterator, -1 = finalize}
//!     got: {"events": [{seq, ev: consume|reduce, i, thread}], "ok": bool, "threads_before": n, "threads_after": n}
//! op "inorder": {"arrival": [ids]} -> {"out": [ids]}
use gix_features::parallel::{self, Reduce};
use std::sync::atomic::{AtomicU64, Ordering};
use std::sync::{Arc, Mutex};
use vhlib::*;

static SEQ: AtomicU64 = AtomicU64::new(0);
type Log = Arc<Mutex<Vec<(u64, &'static str, usize, usize)>>>;

fn jitter(seed: u64, i: usize) {
    let x = seed.wrapping_mul(6364136223846793005).wrapping_add((i as u64).wrapping_mul(1442695040888963407));
    match (x >> 33) % 5 {
        0 => std::thread::yield_now(),
        1 => std::thread::sleep(std::time::Duration::from_micros((x >> 40) % 300)),
        _ => {}
    }
}

struct Collect {
    log: Log,
    fail: usize,
}
impl Reduce for Collect {
    type Input = usize;
    type FeedProduce = usize;
    type Output = usize;
    type Error = String;
    fn feed(&mut self, item: usize) -> Result<usize, String> {
        self.log.lock().unwrap().push((SEQ.fetch_add(1, Ordering::SeqCst), "reduce", item, 0));
        if item == self.fail {
            Err(format!("reducer failed at {item}"))
        } else {
            Ok(item)
        }
    }
    fn finalize(self) -> Result<usize, String> {
        Ok(0)
    }
}

fn live_threads() -> usize {
    std::fs::read_dir("/proc/self/task").map(Iterator::count).unwrap_or(0)
}

fn events(log: &Log) -> Json {
    let mut v = log.lock().unwrap().clone();
    v.sort();
    Json::Array(v.iter().map(|(s, e, i, t)| json!({"seq": s, "ev": e, "i": i, "thread": t})).collect())
}

fn handle(case: &Json) -> Json {
    let op = jstr(&case["op"]);
    if op == "inorder" {
        let arrival: Vec<usize> = case["arrival"].as_array().unwrap().iter().map(|x| x.as_u64().unwrap() as usize).collect();
        let it = parallel::InOrderIter::from(arrival.into_iter().map(|id| Ok::<_, ()>((id, id))));
        let out: Vec<Json> = it.map(|r| Json::from(r.unwrap() as u64)).collect();
        return json!({ "out": out });
    }
    let n = jint(&case["n"]) as usize;
    let threads = jint(&case["threads"]) as usize;
    let fail = jint(&case["fail"]) as usize;
    let seed = jint(&case["seed"]) as u64;
    let log: Log = Default::default();
    SEQ.store(0, Ordering::SeqCst);
    let before = live_threads();
    let ok;
    match op {
        "in_parallel" => {
            let l2 = log.clone();
            let res = parallel::in_parallel(
                1..=n,
                Some(threads),
                |tid| tid,
                move |item, tid| {
                    jitter(seed, item);
                    l2.lock().unwrap().push((SEQ.fetch_add(1, Ordering::SeqCst), "consume", item, *tid));
                    jitter(seed ^ 0x55, item);
                    item
                },
                Collect { log: log.clone(), fail },
            );
            ok = res.is_ok();
        }
        "slice" => {
            let mut items: Vec<usize> = (1..=n).collect();
            let l2 = log.clone();
            let res = parallel::in_parallel_with_slice(
                &mut items,
                Some(threads),
                |tid| tid,
                move |item, tid, _left, _stop| {
                    jitter(seed, *item);
                    l2.lock().unwrap().push((SEQ.fetch_add(1, Ordering::SeqCst), "consume", *item, *tid));
                    if *item == fail {
                        Err(format!("consume failed at {item}"))
                    } else {
                        Ok(())
                    }
                },
                || Some(std::time::Duration::from_millis(2)),
                |tid| tid,
            );
            ok = res.is_ok();
        }
        "stepwise" => {
            let l2 = log.clone();
            let drop_after = jint(&case["drop_after"]);
            let mut sw = parallel::reduce::Stepwise::new(
                1..=n,
                Some(threads),
                |tid| tid,
                move |item, tid: &mut usize| {
                    jitter(seed, item);
                    l2.lock().unwrap().push((SEQ.fetch_add(1, Ordering::SeqCst), "consume", item, *tid));
                    item
                },
                Collect { log: log.clone(), fail },
            );
            if drop_after < 0 {
                ok = sw.finalize().is_ok();
            } else {
                let mut all_ok = true;
                for _ in 0..drop_after {
                    match sw.next() {
                        Some(Ok(_)) => {}
                        Some(Err(_)) => {
                            all_ok = false;
                            break;
                        }
                        None => break,
                    }
                }
                drop(sw);
                ok = all_ok;
            }
        }
        other => panic!("op {other}"),
    }
    // the helper returned: all its threads must be gone (scoped threads / Stepwise::drop joins them)
    // (a joined thread may stay visible in /proc for a moment)
    let mut after = live_threads();
    for _ in 0..100 {
        if after <= before {
            break;
        }
        std::thread::sleep(std::time::Duration::from_millis(5));
        after = live_threads();
    }
    json!({"events": events(&log), "ok": ok, "threads_before": before, "threads_after": after})
}

fn main() {
    run(handle);
}
