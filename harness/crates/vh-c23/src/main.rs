//! C23 executor: registered tempfiles and termination signals.
//! case: {"script": [{"op": create|write|close|persist|drop|forkchild, "t": slot}], "mode": "boundary"|"incall", "signal": signo}
//!   boundary: for k = 0..=len the worker raises the signal on itself after k calls
//!   incall:   the LD_PRELOAD shim delivers the signal right before the n-th libc file-system call (n = 1..N from a dry run)
//! got: {"runs": [{"k"| "n", "exit_signal", "listing": [names], "inflight": index of the call in progress or null, "done": calls completed}]}
//! env: VERIF_C16_SHIM (path of libcrash.so)
use std::io::Write;
use std::path::{Path, PathBuf};
use vhlib::*;

enum Slot {
    Open(gix_tempfile::Handle<gix_tempfile::handle::Writable>),
    Closed(gix_tempfile::Handle<gix_tempfile::handle::Closed>),
}

fn worker(args: &[String]) {
    let case: Json = std::fs::read_to_string(&args[2]).unwrap().parse().unwrap();
    let dir = PathBuf::from(&args[3]);
    let raise_after: i64 = args[4].parse().unwrap();
    let signo = case["signal"].as_i64().unwrap_or(libc::SIGTERM as i64) as i32;
    gix_tempfile::signal::setup(gix_tempfile::signal::handler::Mode::DeleteTempfilesOnTerminationAndRestoreDefaultBehaviour);
    let mut slots: std::collections::HashMap<i64, Slot> = Default::default();
    let script = case["script"].as_array().unwrap();
    let maybe_raise = |k: i64| {
        if raise_after == k {
            unsafe { libc::raise(signo) };
        }
    };
    maybe_raise(0);
    for (i, step) in script.iter().enumerate() {
        let t = jint(&step["t"]);
        eprintln!("B {i}");
        match jstr(&step["op"]) {
            "create" => {
                let h = gix_tempfile::writable_at(dir.join(format!("tmp{t}")), gix_tempfile::ContainingDirectory::Exists, gix_tempfile::AutoRemove::Tempfile)
                    .expect("create");
                slots.insert(t, Slot::Open(h));
            }
            "write" => match slots.get_mut(&t) {
                Some(Slot::Open(h)) => h.with_mut(|f| f.write_all(b"data")).expect("registered").expect("write"),
                _ => panic!("write on non-open slot"),
            },
            "close" => match slots.remove(&t) {
                Some(Slot::Open(h)) => {
                    slots.insert(t, Slot::Closed(h.close().expect("close")));
                }
                _ => panic!("close on non-open slot"),
            },
            "persist" => match slots.remove(&t) {
                Some(Slot::Open(h)) => {
                    h.persist(dir.join(format!("out{t}"))).map_err(|e| e.error).expect("persist");
                }
                Some(Slot::Closed(h)) => {
                    h.persist(dir.join(format!("out{t}"))).map_err(|e| e.error).expect("persist");
                }
                None => panic!("persist on absent slot"),
            },
            "drop" => {
                drop(slots.remove(&t).expect("slot"));
            }
            "forkchild" => unsafe {
                // a forked child that is told to terminate must leave the parent's tempfiles alone
                let pid = libc::fork();
                if pid == 0 {
                    libc::raise(signo);
                    libc::_exit(0);
                }
                let mut status = 0;
                libc::waitpid(pid, &mut status, 0);
            },
            other => panic!("op {other}"),
        }
        eprintln!("E {i}");
        maybe_raise(i as i64 + 1);
    }
    // keep the remaining handles alive until exit without running destructors: the process "ends" here
    eprintln!("FIN");
    std::mem::forget(slots);
    unsafe { libc::_exit(0) };
}

fn listing(dir: &Path) -> Vec<String> {
    let mut v: Vec<String> = std::fs::read_dir(dir).map(|rd| rd.flatten().map(|e| e.file_name().to_string_lossy().into_owned()).collect()).unwrap_or_default();
    v.sort();
    v
}

fn run_worker(case_file: &Path, dir: &Path, raise_after: i64, shim_env: &[(&str, String)]) -> (Option<i32>, Option<i32>, String) {
    use std::os::unix::process::ExitStatusExt;
    let _ = std::fs::remove_dir_all(dir);
    std::fs::create_dir_all(dir).unwrap();
    let mut cmd = std::process::Command::new(std::env::current_exe().unwrap());
    cmd.arg("--worker").arg(case_file).arg(dir).arg(raise_after.to_string());
    for (k, v) in shim_env {
        cmd.env(k, v);
    }
    let o = cmd.output().expect("worker");
    (o.status.code(), o.status.signal(), String::from_utf8_lossy(&o.stderr).to_string())
}

fn progress(stderr: &str) -> (usize, Option<usize>) {
    // (calls completed, index of the call in flight)
    let mut done = 0;
    let mut inflight = None;
    for l in stderr.lines() {
        if let Some(i) = l.strip_prefix("B ") {
            inflight = i.trim().parse().ok();
        } else if let Some(i) = l.strip_prefix("E ") {
            done = i.trim().parse::<usize>().map(|x| x + 1).unwrap_or(done);
            inflight = None;
        }
    }
    (done, inflight)
}

fn handle(case: &Json) -> Json {
    let work = PathBuf::from(std::env::var("VERIF_WORK").expect("VERIF_WORK"));
    let dir = work.join(format!("c23-dir-{}", std::process::id()));
    let case_file = work.join(format!("c23-case-{}.json", std::process::id()));
    std::fs::write(&case_file, case.to_string()).unwrap();
    let n_ops = case["script"].as_array().unwrap().len() as i64;
    let mut runs = Vec::new();
    match jstr(&case["mode"]) {
        "boundary" => {
            for k in 0..=n_ops {
                let (code, sig, err) = run_worker(&case_file, &dir, k, &[]);
                let (done, inflight) = progress(&err);
                runs.push(json!({"k": k, "exit_code": code, "exit_signal": sig, "listing": listing(&dir), "done": done, "inflight": inflight,
                                 "stderr_tail": err.lines().rev().take(2).collect::<Vec<_>>()}));
            }
        }
        "incall" => {
            let shim = std::env::var("VERIF_C16_SHIM").expect("VERIF_C16_SHIM");
            let count_file = work.join(format!("c23-count-{}", std::process::id()));
            let _ = std::fs::remove_file(&count_file);
            // dry run counts the points (the worker leaves through _exit, so the shim writes the count from the FIN marker run instead)
            let (code, _sig, err) = run_worker(
                &case_file,
                &dir,
                -1,
                &[("LD_PRELOAD", shim.clone()), ("SIGNAL_AT", "1000000".into()), ("SIGNAL_COUNT_CLOSE", "1".into())],
            );
            let dry_ok = code == Some(0) && err.contains("FIN");
            let mut n = 1;
            while dry_ok && n < 200 {
                let (code, sig, err) = run_worker(
                    &case_file,
                    &dir,
                    -1,
                    &[("LD_PRELOAD", shim.clone()), ("SIGNAL_AT", n.to_string()), ("SIGNAL_COUNT_CLOSE", "1".into())],
                );
                if code == Some(0) && err.contains("FIN") {
                    break; // n is beyond the last point: the script ran to its end undisturbed
                }
                let (done, inflight) = progress(&err);
                runs.push(json!({"n": n, "exit_code": code, "exit_signal": sig, "listing": listing(&dir), "done": done, "inflight": inflight,
                                 "stderr_tail": err.lines().rev().take(2).collect::<Vec<_>>()}));
                n += 1;
            }
            let _ = std::fs::remove_dir_all(&dir);
            return json!({"dry_ok": dry_ok, "runs": runs});
        }
        other => panic!("mode {other}"),
    }
    let _ = std::fs::remove_dir_all(&dir);
    json!({"dry_ok": true, "runs": runs})
}

fn main() {
    let args: Vec<String> = std::env::args().collect();
    if args.get(1).map(String::as_str) == Some("--worker") {
        worker(&args);
        return;
    }
    run(handle);
}
