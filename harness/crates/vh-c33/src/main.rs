//! C33 executor: gix_url::parse -> Url::to_bstring -> gix_url::parse.
//! case {"input": bytes} -> {ok, err, url, written, back_ok, back_equal, back}
//! url = {scheme, user, password, host, port, path, alt} with optional values as [] / [x].
use bstr::ByteSlice;
use vhlib::*;

fn opt_str(v: Option<&str>) -> Json {
    match v {
        None => json!([]),
        Some(s) => json!([jbytes(s.as_bytes())]),
    }
}

fn url_json(u: &gix_url::Url) -> Json {
    // the alternative-form flag is private; equality with a copy that has the flag set reveals it
    let alt = u.clone().serialize_alternate_form(true) == *u;
    json!({
        "scheme": jbytes(u.scheme.as_str().as_bytes()),
        "user": opt_str(u.user()),
        "password": opt_str(u.password()),
        "host": opt_str(u.host()),
        "port": match u.port { None => json!([]), Some(p) => json!([p]) },
        "path": jbytes(&u.path),
        "alt": alt,
    })
}

fn no_url() -> Json {
    json!({"scheme": [], "user": [], "password": [], "host": [], "port": [], "path": [], "alt": false})
}

fn err_kind(e: &gix_url::parse::Error) -> &'static str {
    use gix_url::parse::Error::*;
    match e {
        Utf8 { .. } => "utf8",
        Url { .. } => "url",
        TooLong { .. } => "toolong",
        MissingRepositoryPath { .. } => "nopath",
        RelativeUrl { .. } => "relative",
    }
}

fn main() {
    run(|case| {
        let input = bytes(&case["input"]);
        match gix_url::parse(input.as_bstr()) {
            Err(e) => json!({"ok": false, "err": err_kind(&e), "url": no_url(), "written": [], "back_ok": false,
                             "back_equal": false, "back": no_url()}),
            Ok(u) => {
                let written = u.to_bstring();
                match gix_url::parse(written.as_bstr()) {
                    Ok(back) => json!({"ok": true, "err": "", "url": url_json(&u), "written": jbytes(&written), "back_ok": true,
                                       "back_equal": back == u, "back": url_json(&back)}),
                    Err(e) => json!({"ok": true, "err": "", "url": url_json(&u), "written": jbytes(&written), "back_ok": false,
                                     "back_equal": false, "back": no_url(), "back_err": err_kind(&e)}),
                }
            }
        }
    });
}
