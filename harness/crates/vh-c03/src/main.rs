//! C03 executor: tree entry order, tree bytes/id, and lookup by name and kind.
//!
//! case: {"entries":[{"mode":[octal text bytes],"name":[bytes],"id":[20 bytes]}..],
//!        "perms":[[index..]..]            (optional: other input orders of the same entries)
//!        "lookups":[{"name":[bytes],"dir":bool}..]}
//! got:  {"sorted":[entry..]              Vec<tree::Entry>::sort() of the given order
//!        "sorted_perms":[[entry..]..]    the same for every permutation
//!        "sorted_ref":[entry..]          Vec<tree::EntryRef>::sort()
//!        "bytes","size","header","id"    Tree::write_to / size / loose_header / compute_hash
//!        "decoded":[entry..]             TreeRef::from_bytes(bytes).entries
//!        "iter_decoded":[entry..]        TreeRefIter::from_bytes(bytes)
//!        "ref_bytes"                     TreeRef::write_to
//!        "lookups":[{"name","dir","found","mode","id"}..]   TreeRef::bisect_entry
//!        "editor":{"skipped":bool,"bytes":[..]}  tree::Editor: upsert of every entry into an empty tree, write}
use bstr::ByteSlice;
use gix_object::tree::{Entry, EntryKind, EntryMode, EntryRef};
use gix_object::{Tree, TreeRef, TreeRefIter, WriteTo};
use vhlib::*;

fn mode_of(text: &[u8]) -> EntryMode {
    EntryMode(u16::from_str_radix(std::str::from_utf8(text).expect("octal text"), 8).expect("octal mode"))
}

fn entry_of(v: &Json) -> Entry {
    Entry {
        mode: mode_of(&bytes(&v["mode"])),
        filename: bytes(&v["name"]).into(),
        oid: gix_hash::ObjectId::try_from(bytes(&v["id"]).as_slice()).expect("20 byte id"),
    }
}

fn jentry(mode: EntryMode, name: &[u8], id: &gix_hash::oid) -> Json {
    let mut buf = Default::default();
    json!({"mode": jbytes(mode.as_bytes(&mut buf)), "name": jbytes(name), "id": jbytes(id.as_bytes())})
}

fn jentries(es: &[Entry]) -> Json {
    Json::Array(es.iter().map(|e| jentry(e.mode, &e.filename, &e.oid)).collect())
}

fn jentry_refs(es: &[EntryRef<'_>]) -> Json {
    Json::Array(es.iter().map(|e| jentry(e.mode, e.filename, e.oid)).collect())
}

fn kind_of(mode: EntryMode) -> Option<EntryKind> {
    Some(match mode.0 {
        0o040000 => EntryKind::Tree,
        0o100644 => EntryKind::Blob,
        0o100755 => EntryKind::BlobExecutable,
        0o120000 => EntryKind::Link,
        0o160000 => EntryKind::Commit,
        _ => return None,
    })
}

fn main() {
    run(|case| {
        let input: Vec<Entry> = case["entries"].as_array().expect("entries").iter().map(entry_of).collect();
        let mut sorted = input.clone();
        sorted.sort();
        let mut sorted_perms = Vec::new();
        if let Some(perms) = case["perms"].as_array() {
            for p in perms {
                let mut es: Vec<Entry> =
                    p.as_array().expect("perm").iter().map(|i| input[i.as_u64().expect("index") as usize].clone()).collect();
                es.sort();
                sorted_perms.push(jentries(&es));
            }
        }
        let mut refs: Vec<EntryRef<'_>> =
            input.iter().map(|e| EntryRef { mode: e.mode, filename: e.filename.as_bstr(), oid: &e.oid }).collect();
        refs.sort();

        let tree = Tree { entries: sorted.clone() };
        let mut buf = Vec::new();
        tree.write_to(&mut buf).expect("write tree");
        let size = tree.size();
        let header = gix_object::encode::loose_header(gix_object::Kind::Tree, size);
        let id = gix_object::compute_hash(gix_hash::Kind::Sha1, gix_object::Kind::Tree, &buf);

        let tree_ref = TreeRef::from_bytes(&buf).expect("decode what was written");
        let iter_decoded: Vec<EntryRef<'_>> = TreeRefIter::from_bytes(&buf).entries().expect("iter decode");
        let mut ref_bytes = Vec::new();
        tree_ref.write_to(&mut ref_bytes).expect("write tree ref");

        let mut lookups = Vec::new();
        for l in case["lookups"].as_array().expect("lookups") {
            let name = bytes(&l["name"]);
            let dir = jbool(&l["dir"]);
            lookups.push(match tree_ref.bisect_entry(name.as_bstr(), dir) {
                Some(e) => {
                    let mut mb = Default::default();
                    json!({"name": jbytes(&name), "dir": dir, "found": true, "found_name": jbytes(e.filename),
                           "mode": jbytes(e.mode.as_bytes(&mut mb)), "id": jbytes(e.oid.as_bytes())})
                }
                None => json!({"name": jbytes(&name), "dir": dir, "found": false, "found_name": jbytes(&name), "mode": [], "id": []}),
            });
        }

        let editor = if input.iter().all(|e| kind_of(e.mode).is_some()) {
            let mut ed = gix_object::tree::Editor::new(Tree::empty(), &gix_object::find::Never, gix_hash::Kind::Sha1);
            for e in &input {
                ed.upsert(Some(e.filename.as_bstr()), kind_of(e.mode).expect("checked"), e.oid).expect("upsert");
            }
            let mut root = Vec::new();
            ed.write(|t: &Tree| -> Result<gix_hash::ObjectId, std::io::Error> {
                root.clear();
                t.write_to(&mut root)?;
                Ok(gix_object::compute_hash(gix_hash::Kind::Sha1, gix_object::Kind::Tree, &root))
            })
            .expect("editor write");
            json!({"skipped": false, "bytes": jbytes(&root)})
        } else {
            json!({"skipped": true, "bytes": []})
        };

        json!({
            "sorted": jentries(&sorted),
            "sorted_perms": sorted_perms,
            "sorted_ref": jentry_refs(&refs),
            "bytes": jbytes(&buf),
            "size": size,
            "header": jbytes(&header),
            "id": jbytes(id.as_bytes()),
            "decoded": jentry_refs(&tree_ref.entries),
            "iter_decoded": jentry_refs(&iter_decoded),
            "ref_bytes": jbytes(&ref_bytes),
            "lookups": lookups,
            "editor": editor,
        })
    });
}
