//! C50 executor: repository discovery.
//! case: {"cwd": "<abs dir>", "start": "<path text, absolute or relative to cwd>",
//!        "ceil": "<value of GIT_CEILING_DIRECTORIES>" | null}
//! The process changes into `cwd`, exports GIT_CEILING_DIRECTORIES like a caller's environment would,
//! and runs gix_discover::upwards_opts(start, Options::default().apply_environment()) with
//! match_ceiling_dir_or_error = false (what gix::discover_with_environment_overrides recommends for
//! git compatibility).
//! got: {"ok": true, "variant": "WorkTree"|"LinkedWorkTree"|"Repository", "git_dir": raw, "work_dir": raw|null,
//!       "git_dir_abs": canonical, "work_dir_abs": canonical|null}
//!    | {"ok": false, "err": "<variant name>", "msg": text}
use std::path::{Path, PathBuf};
use vhlib::*;

fn abs(cwd: &Path, p: &Path) -> Json {
    let j = if p.is_absolute() { p.to_path_buf() } else { cwd.join(p) };
    match std::fs::canonicalize(&j) {
        Ok(c) => Json::from(c.to_string_lossy().into_owned()),
        Err(_) => Json::from(format!("!{}", j.display())),
    }
}

fn main() {
    run(|case| {
        let cwd = PathBuf::from(jstr(&case["cwd"]));
        std::env::set_current_dir(&cwd).expect("chdir");
        match case["ceil"].as_str() {
            Some(c) => std::env::set_var("GIT_CEILING_DIRECTORIES", c),
            None => std::env::remove_var("GIT_CEILING_DIRECTORIES"),
        }
        let mut opts = gix_discover::upwards::Options::default().apply_environment();
        opts.match_ceiling_dir_or_error = false;
        let start = PathBuf::from(jstr(&case["start"]));
        match gix_discover::upwards_opts(&start, opts) {
            Ok((path, _trust)) => {
                let variant = match &path {
                    gix_discover::repository::Path::WorkTree(_) => "WorkTree",
                    gix_discover::repository::Path::LinkedWorkTree { .. } => "LinkedWorkTree",
                    gix_discover::repository::Path::Repository(_) => "Repository",
                };
                let (git_dir, work_dir) = path.into_repository_and_work_tree_directories();
                json!({"ok": true, "variant": variant,
                       "git_dir": git_dir.to_string_lossy(), "work_dir": work_dir.as_ref().map(|w| w.to_string_lossy().into_owned()),
                       "git_dir_abs": abs(&cwd, &git_dir),
                       "work_dir_abs": work_dir.as_ref().map(|w| abs(&cwd, w)).unwrap_or(Json::Null)})
            }
            Err(e) => {
                let dbg = format!("{e:?}");
                let name = dbg.split(|c: char| !c.is_alphanumeric()).next().unwrap_or("").to_string();
                json!({"ok": false, "err": name, "msg": e.to_string()})
            }
        }
    });
}
