//! C35 executor: credential context wire format.
//! A context is {"url":opt,"path":opt,"protocol":opt,"host":opt,"username":opt,"password":opt}
//! with opt = [] (absent) or [[bytes]] (present).
//! op "rt":  {"ctx": ctx} -> {refused, bytes, back_ok, back, err}   (write_to, then from_bytes of what was written)
//! op "dec": {"input": bytes} -> {ok, ctx, err}                      (from_bytes)
use gix_credentials::protocol::Context;
use vhlib::*;

fn opt(v: &Json) -> Option<Vec<u8>> {
    let a = v.as_array().expect("optional value");
    match a.len() {
        0 => None,
        1 => Some(bytes(&a[0])),
        _ => panic!("optional value with more than one element"),
    }
}

fn jopt(v: Option<&[u8]>) -> Json {
    match v {
        None => json!([]),
        Some(b) => json!([jbytes(b)]),
    }
}

fn text(v: Option<Vec<u8>>) -> Option<String> {
    v.map(|b| String::from_utf8(b).expect("text fields of a Context are UTF-8 by type (out of domain)"))
}

fn ctx_from(v: &Json) -> Context {
    Context {
        protocol: text(opt(&v["protocol"])),
        host: text(opt(&v["host"])),
        path: opt(&v["path"]).map(Into::into),
        username: text(opt(&v["username"])),
        password: text(opt(&v["password"])),
        url: opt(&v["url"]).map(Into::into),
        quit: None,
    }
}

fn ctx_json(c: &Context) -> Json {
    json!({
        "url": jopt(c.url.as_ref().map(|b| b.as_slice())),
        "path": jopt(c.path.as_ref().map(|b| b.as_slice())),
        "protocol": jopt(c.protocol.as_ref().map(|s| s.as_bytes())),
        "host": jopt(c.host.as_ref().map(|s| s.as_bytes())),
        "username": jopt(c.username.as_ref().map(|s| s.as_bytes())),
        "password": jopt(c.password.as_ref().map(|s| s.as_bytes())),
    })
}

fn empty_ctx() -> Json {
    ctx_json(&Context::default())
}

fn main() {
    run(|case| match case["op"].as_str().unwrap_or("rt") {
        "rt" => {
            let ctx = ctx_from(&case["ctx"]);
            let mut buf = Vec::<u8>::new();
            match ctx.write_to(&mut buf) {
                Err(e) => json!({"refused": true, "bytes": [], "back_ok": false, "back": empty_ctx(), "err": e.to_string(),
                                 "partial": jbytes(&buf)}),
                Ok(()) => match Context::from_bytes(&buf) {
                    Ok(back) => json!({"refused": false, "bytes": jbytes(&buf), "back_ok": true, "back": ctx_json(&back),
                                       "quit": back.quit.is_some(), "err": ""}),
                    Err(e) => json!({"refused": false, "bytes": jbytes(&buf), "back_ok": false, "back": empty_ctx(),
                                     "err": e.to_string()}),
                },
            }
        }
        "dec" => match Context::from_bytes(&bytes(&case["input"])) {
            Ok(c) => json!({"ok": true, "ctx": ctx_json(&c), "err": ""}),
            Err(e) => json!({"ok": false, "ctx": empty_ctx(), "err": e.to_string()}),
        },
        other => panic!("unknown op {other}"),
    });
}
