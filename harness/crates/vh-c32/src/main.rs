//! C32 executor: fetch-refspec parsing and matching against remote references.
//! case: {"specs": [[bytes]..], "refs": [{"name": [bytes], "oid": [40 hex bytes], "peeled": [40 hex bytes] | []}..]}
//! got:  {"parse": [{"ok": bool, "err": str, "kind": only|update|exclude, "force": bool, "src": [bytes], "dst": [bytes]}..],
//!        "match": "skipped" | {"mappings": [{"src": [bytes], "src_is_oid": bool, "dst": [bytes], "has_dst": bool, "spec": int, "item": int}..]},
//!        "validated": "skipped" | {"ok": bool, "conflicts": [[bytes]..], "removed": [[bytes]..], "mappings": [...]}}
//! A panic inside match_remotes/validated is reported per stage (match_panic / validate_panic).
use bstr::{BString, ByteSlice};
use gix_refspec::match_group::{Item, Mapping, SourceRef};
use gix_refspec::parse::Operation;
use vhlib::*;

fn oid(v: &Json) -> Option<gix_hash::ObjectId> {
    let b = bytes(v);
    if b.is_empty() {
        None
    } else {
        Some(gix_hash::ObjectId::from_hex(&b).expect("valid hex oid in case"))
    }
}

fn mapping_json(m: &Mapping<'_, '_>) -> Json {
    let (src, is_oid) = match m.lhs {
        SourceRef::FullName(n) => (jbytes(n), false),
        SourceRef::ObjectId(id) => (jbytes(id.to_string().as_bytes()), true),
    };
    json!({
        "src": src,
        "src_is_oid": is_oid,
        "dst": m.rhs.as_ref().map(|d| jbytes(d.as_ref())).unwrap_or_else(|| jbytes(b"")),
        "has_dst": m.rhs.is_some(),
        "spec": m.spec_index,
        "item": m.item_index.map(|i| i as i64).unwrap_or(-1),
    })
}

fn main() {
    run(|case| {
        let specs: Vec<BString> = bytes_list(&case["specs"]).into_iter().map(BString::from).collect();
        let refs: Vec<(BString, gix_hash::ObjectId, Option<gix_hash::ObjectId>)> = case["refs"]
            .as_array()
            .expect("refs")
            .iter()
            .map(|r| (BString::from(bytes(&r["name"])), oid(&r["oid"]).expect("oid"), oid(&r["peeled"])))
            .collect();
        let mut parse = Vec::new();
        let mut parsed = Vec::new();
        for s in &specs {
            match gix_refspec::parse(s.as_bstr(), Operation::Fetch) {
                Ok(r) => {
                    use gix_refspec::instruction::Fetch;
                    use gix_refspec::Instruction;
                    let (kind, force) = match r.instruction() {
                        Instruction::Fetch(Fetch::Only { .. }) => ("only", false),
                        Instruction::Fetch(Fetch::AndUpdate { allow_non_fast_forward, .. }) => ("update", allow_non_fast_forward),
                        Instruction::Fetch(Fetch::Exclude { .. }) => ("exclude", false),
                        Instruction::Push(_) => ("push", false),
                    };
                    parse.push(json!({"ok": true, "err": "", "kind": kind, "force": force,
                                      "src": jbytes(r.source().map(|s| s.as_bytes()).unwrap_or(b"")),
                                      "dst": jbytes(r.destination().map(|s| s.as_bytes()).unwrap_or(b""))}));
                    parsed.push(r);
                }
                Err(e) => parse.push(json!({"ok": false, "err": format!("{e:?}").split(['(', ' ', '{']).next().unwrap_or("").to_string(),
                                            "kind": "", "force": false, "src": [], "dst": []})),
            }
        }
        let mut out = json!({"parse": parse, "match": "skipped", "validated": "skipped"});
        if parsed.len() != specs.len() {
            return out;
        }
        let items: Vec<Item<'_>> = refs
            .iter()
            .map(|(n, t, p)| Item { full_ref_name: n.as_bstr(), target: t, object: p.as_deref() })
            .collect();
        let group = gix_refspec::MatchGroup::from_fetch_specs(parsed.iter().copied());
        let outcome = match guarded(|| group.match_remotes(items.iter().copied())) {
            Ok(o) => o,
            Err(msg) => {
                out["match_panic"] = Json::from(msg);
                return out;
            }
        };
        out["match"] = json!({"mappings": outcome.mappings.iter().map(mapping_json).collect::<Vec<_>>()});
        match guarded(|| outcome.validated()) {
            Err(msg) => out["validate_panic"] = Json::from(msg),
            Ok(Ok((o, fixes))) => {
                let removed: Vec<Json> = fixes
                    .iter()
                    .map(|f| match f {
                        gix_refspec::match_group::validate::Fix::MappingWithPartialDestinationRemoved { name, .. } => jbytes(name),
                    })
                    .collect();
                out["validated"] = json!({"ok": true, "conflicts": [], "removed": removed,
                                          "mappings": o.mappings.iter().map(mapping_json).collect::<Vec<_>>()});
            }
            Ok(Err(e)) => {
                let conflicts: Vec<Json> = e
                    .issues
                    .iter()
                    .map(|i| match i {
                        gix_refspec::match_group::validate::Issue::Conflict { destination_full_ref_name, .. } => {
                            jbytes(destination_full_ref_name)
                        }
                    })
                    .collect();
                out["validated"] = json!({"ok": false, "conflicts": conflicts, "removed": [], "mappings": []});
            }
        }
        out
    });
}
