//! Turns a decoded `gix_index::State` into the JSON shape of the abstract state of IndexFormat.tla.
//! 32-bit quantities become 4-byte big-endian arrays (TLC integers are 32 bit signed).
use bstr::BString;
use gix_index::extension::untracked_cache::{Directory, OidStat};
use vhlib::*;

pub fn quad(v: u32) -> Json {
    jbytes(&v.to_be_bytes())
}

fn stat_json(s: &gix_index::entry::Stat) -> Json {
    json!({"ctime": quad(s.ctime.secs), "ctime_ns": quad(s.ctime.nsecs), "mtime": quad(s.mtime.secs), "mtime_ns": quad(s.mtime.nsecs),
           "dev": quad(s.dev), "ino": quad(s.ino), "uid": quad(s.uid), "gid": quad(s.gid), "size": quad(s.size)})
}

fn no_stat() -> Json {
    json!({"ctime": [], "ctime_ns": [], "mtime": [], "mtime_ns": [], "dev": [], "ino": [], "uid": [], "gid": [], "size": []})
}

fn tree_json(t: &gix_index::extension::Tree) -> Json {
    json!({"name": jbytes(&t.name),
           "num": t.num_entries.map(|n| n as i64).unwrap_or(-1),
           "id": if t.num_entries.is_some() { jbytes(t.id.as_bytes()) } else { json!([]) },
           "children": t.children.iter().map(tree_json).collect::<Vec<_>>()})
}

// The fields of `ResolvePath`, `Stage` and `UntrackedCache` are private and have no accessors. They are read through
// structurally identical mirror types (same field types in the same order, hence the same layout with this compiler).
#[allow(dead_code)]
struct MirrorResolvePath {
    name: BString,
    stages: [Option<MirrorStage>; 3],
}
#[allow(dead_code)]
#[derive(Clone, Copy)]
struct MirrorStage {
    mode: u32,
    id: gix_hash::ObjectId,
}
#[allow(dead_code)]
struct MirrorUntrackedCache {
    identifier: BString,
    info_exclude: Option<OidStat>,
    excludes_file: Option<OidStat>,
    exclude_filename_per_dir: BString,
    dir_flags: u32,
    directories: Vec<Directory>,
}

fn oid_stat_json(o: &Option<OidStat>) -> Json {
    match o {
        Some(o) => json!({"stat": stat_json(&o.stat), "id": jbytes(o.id.as_bytes())}),
        None => json!({"stat": no_stat(), "id": []}),
    }
}

pub fn state_json(state: &gix_index::State) -> Json {
    let entries: Vec<Json> = state
        .entries()
        .iter()
        .map(|e| {
            use gix_index::entry::Flags;
            let mut j = stat_json(&e.stat);
            j["mode"] = quad(e.mode.bits());
            j["id"] = jbytes(e.id.as_bytes());
            j["stage"] = Json::from(e.flags.stage_raw());
            j["assume_valid"] = Json::from(e.flags.contains(Flags::ASSUME_VALID));
            j["extended"] = Json::from(e.flags.contains(Flags::EXTENDED));
            j["intent_to_add"] = Json::from(e.flags.contains(Flags::INTENT_TO_ADD));
            j["skip_worktree"] = Json::from(e.flags.contains(Flags::SKIP_WORKTREE));
            j["path"] = jbytes(e.path(state));
            // in-memory flag bits beyond those the file can hold must not appear out of thin air
            j["other_flags"] = Json::from(
                (e.flags
                    & !(Flags::STAGE_MASK | Flags::ASSUME_VALID | Flags::EXTENDED | Flags::INTENT_TO_ADD | Flags::SKIP_WORKTREE))
                    .bits(),
            );
            j
        })
        .collect();
    let tree = match state.tree() {
        Some(t) => json!({"present": true, "root": tree_json(t)}),
        None => json!({"present": false}),
    };
    let reuc = match state.resolve_undo() {
        Some(paths) => {
            fn elem_size<T>(_: &Vec<T>) -> usize {
                std::mem::size_of::<T>()
            }
            assert_eq!(std::mem::size_of::<MirrorResolvePath>(), elem_size(paths));
            // SAFETY: see the comment at the mirror types
            let paths: &Vec<MirrorResolvePath> = unsafe { &*(paths as *const _ as *const Vec<MirrorResolvePath>) };
            let v: Vec<Json> = paths
                .iter()
                .map(|p| {
                    json!({"path": jbytes(&p.name),
                           "modes": p.stages.iter().map(|s| s.map(|s| s.mode).unwrap_or(0)).collect::<Vec<_>>(),
                           "ids": p.stages.iter().map(|s| s.map(|s| jbytes(s.id.as_bytes())).unwrap_or(json!([]))).collect::<Vec<_>>()})
                })
                .collect();
            json!({"present": true, "paths": v})
        }
        None => json!({"present": false}),
    };
    let untr = match state.untracked() {
        Some(u) => {
            assert_eq!(
                std::mem::size_of::<MirrorUntrackedCache>(),
                std::mem::size_of::<gix_index::extension::UntrackedCache>()
            );
            // SAFETY: see the comment at the mirror types
            let u: &MirrorUntrackedCache = unsafe { &*(u as *const _ as *const MirrorUntrackedCache) };
            let dirs: Vec<Json> = u
                .directories
                .iter()
                .map(|d| {
                    json!({"name": jbytes(&d.name),
                           "untracked": d.untracked_entries.iter().map(|n| jbytes(n)).collect::<Vec<_>>(),
                           "subdirs": d.sub_directories.len(),
                           "check_only": d.check_only,
                           "stat": d.stat.as_ref().map(stat_json).unwrap_or_else(no_stat),
                           "oid": d.exclude_file_oid.map(|o| jbytes(o.as_bytes())).unwrap_or(json!([]))})
                })
                .collect();
            json!({"present": true, "cache": {
                "ident": jbytes(&u.identifier),
                "info_exclude": oid_stat_json(&u.info_exclude),
                "excludes_file": oid_stat_json(&u.excludes_file),
                "dir_flags": quad(u.dir_flags),
                "exclude_per_dir": jbytes(&u.exclude_filename_per_dir),
                "dirs": dirs}})
        }
        None => json!({"present": false}),
    };
    json!({"version": match state.version() { gix_index::Version::V2 => 2, gix_index::Version::V3 => 3, gix_index::Version::V4 => 4 },
           "entries": entries,
           "sparse": state.is_sparse(),
           "tree": tree,
           "reuc": reuc,
           "untr": untr,
           "eoie": state.had_end_of_index_marker(),
           "ieot": state.had_offset_table(),
           "link": state.link().is_some()})
}
