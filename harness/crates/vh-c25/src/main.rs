//! C25 executor: load an index (bytes rendered by the specification or written by git), mutate it through the
//! `State` API, write it with each extension option, read it back.
//! case: {"input": [bytes] | "path": file, "op": {"kind": "none"|"remove"|"ita"|"skip", "k": 1-based entry}, "opts": ["all","none","tree","eoie"]}
//!       or {"build": [{path, stage, mode, id, flags...}], ...} for states assembled with dangerously_push_entry
//! got:  {"loaded": state, "memory": state after the mutation (REMOVE-flagged entries left out),
//!        "outs": [{"opt", "bytes", "version", "checksum", "reread": state | "error"}]}
mod dump;
use gix_index::entry::Flags;
use vhlib::*;

fn decode(data: &[u8]) -> Result<gix_index::State, String> {
    gix_index::State::from_bytes(
        data,
        filetime::FileTime::from_unix_time(0, 0),
        gix_hash::Kind::Sha1,
        gix_index::decode::Options { thread_limit: Some(1), ..Default::default() },
    )
    .map(|(s, _)| s)
    .map_err(|e| e.to_string())
}

fn be(v: &Json) -> u32 {
    let b = bytes(v);
    u32::from_be_bytes([b[0], b[1], b[2], b[3]])
}

fn build(entries: &Json) -> gix_index::State {
    let mut state = gix_index::State::new(gix_hash::Kind::Sha1);
    for e in entries.as_array().expect("entries") {
        let stat = gix_index::entry::Stat {
            ctime: gix_index::entry::stat::Time { secs: be(&e["ctime"]), nsecs: be(&e["ctime_ns"]) },
            mtime: gix_index::entry::stat::Time { secs: be(&e["mtime"]), nsecs: be(&e["mtime_ns"]) },
            dev: be(&e["dev"]),
            ino: be(&e["ino"]),
            uid: be(&e["uid"]),
            gid: be(&e["gid"]),
            size: be(&e["size"]),
        };
        let mut flags = Flags::from_bits_retain((jint(&e["stage"]) as u32) << 12);
        if jbool(&e["assume_valid"]) {
            flags |= Flags::ASSUME_VALID;
        }
        if jbool(&e["extended"]) {
            flags |= Flags::EXTENDED;
        }
        if jbool(&e["intent_to_add"]) {
            flags |= Flags::INTENT_TO_ADD;
        }
        if jbool(&e["skip_worktree"]) {
            flags |= Flags::SKIP_WORKTREE;
        }
        let path = bytes(&e["path"]);
        state.dangerously_push_entry(
            stat,
            gix_hash::ObjectId::from_bytes_or_panic(&bytes(&e["id"])),
            flags,
            gix_index::entry::Mode::from_bits_truncate(be(&e["mode"])),
            path.as_slice().into(),
        );
    }
    state.sort_entries();
    state
}

fn main() {
    run(|case| {
        let mut state = if case.get("build").is_some() {
            build(&case["build"])
        } else {
            let data = match case.get("path").and_then(|p| p.as_str()) {
                Some(p) => std::fs::read(p).expect("read index"),
                None => bytes(&case["input"]),
            };
            match decode(&data) {
                Ok(s) => s,
                Err(e) => return json!({"load_error": e}),
            }
        };
        let loaded = dump::state_json(&state);
        let k = case["op"]["k"].as_u64().unwrap_or(0) as usize;
        match case["op"]["kind"].as_str().unwrap_or("none") {
            "none" => {}
            "remove" => state.entries_mut()[k - 1].flags |= Flags::REMOVE,
            "ita" => state.entries_mut()[k - 1].flags |= Flags::INTENT_TO_ADD,
            "skip" => state.entries_mut()[k - 1].flags |= Flags::SKIP_WORKTREE | Flags::EXTENDED,
            other => panic!("op {other}"),
        }
        let mut memory = dump::state_json(&state);
        // REMOVE-flagged entries are not part of the state to be stored
        let kept: Vec<Json> = memory["entries"]
            .as_array()
            .unwrap()
            .iter()
            .zip(state.entries())
            .filter(|(_, e)| !e.flags.contains(Flags::REMOVE))
            .map(|(j, _)| {
                let mut j = j.clone();
                j["other_flags"] = Json::from(0);
                j
            })
            .collect();
        memory["entries"] = Json::Array(kept);
        let file = gix_index::File::from_state(state, std::path::PathBuf::from("/nonexistent/index"));
        let mut outs = Vec::new();
        for o in case["opts"].as_array().expect("opts") {
            use gix_index::write::Extensions;
            let extensions = match jstr(o) {
                "all" => Extensions::All,
                "none" => Extensions::None,
                "tree" => Extensions::Given { tree_cache: true, end_of_index_entry: false },
                "eoie" => Extensions::Given { tree_cache: false, end_of_index_entry: true },
                other => panic!("opt {other}"),
            };
            let res = guarded(|| {
                let mut buf = Vec::new();
                let r = file.write_to(&mut buf, gix_index::write::Options { extensions, skip_hash: false });
                (buf, r)
            });
            outs.push(match res {
                Ok((buf, Ok((version, checksum)))) => {
                    let reread = match guarded(|| decode(&buf)) {
                        Ok(Ok(s)) => json!({"state": dump::state_json(&s)}),
                        Ok(Err(e)) => json!({"error": e}),
                        Err(p) => json!({"error": format!("panic: {p}")}),
                    };
                    json!({"opt": o, "bytes": jbytes(&buf), "checksum": jbytes(checksum.as_bytes()),
                           "version": match version { gix_index::Version::V2 => 2, gix_index::Version::V3 => 3, gix_index::Version::V4 => 4 },
                           "reread": reread})
                }
                Ok((_, Err(e))) => json!({"opt": o, "write_error": e.to_string()}),
                Err(p) => json!({"opt": o, "panic": p}),
            });
        }
        json!({"loaded": loaded, "memory": memory, "outs": outs})
    });
}
