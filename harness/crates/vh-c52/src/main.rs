//! C52 executor: date formatting and parsing.
//! case: {"op":"format", "secs": "<decimal>", "offset": <seconds>, "negz": bool, "fmt": name}
//!         -> got {"text": [bytes], "parse": {"ok": bool, "secs": "<decimal>", "offset": int, "neg": bool, "err": str}}  (parse of the text just produced)
//!       {"op":"parse", "text": [bytes]} -> got {"parse": {...}}
//! Panics inside format / parse are reported as "format_panic" / "parse_panic".
use gix_date::time::{format, Format, Sign};
use vhlib::*;

fn fmt_of(name: &str) -> Format {
    match name {
        "SHORT" => format::SHORT.into(),
        "RFC2822" => format::RFC2822.into(),
        "GIT_RFC2822" => format::GIT_RFC2822.into(),
        "ISO8601" => format::ISO8601.into(),
        "ISO8601_STRICT" => format::ISO8601_STRICT.into(),
        "GITOXIDE" => format::GITOXIDE.into(),
        "DEFAULT" => format::DEFAULT.into(),
        "UNIX" => format::UNIX,
        "RAW" => format::RAW,
        other => panic!("unknown format {other}"),
    }
}

fn parse_json(text: &str) -> Json {
    // a fixed "now" so that relative dates (outside the judged grammar) are deterministic
    let now = std::time::SystemTime::UNIX_EPOCH + std::time::Duration::from_secs(1_000_000_000);
    match guarded(|| gix_date::parse(text, Some(now))) {
        Ok(Ok(t)) => json!({"ok": true, "secs": t.seconds.to_string(), "offset": t.offset, "neg": t.sign == Sign::Minus, "err": ""}),
        Ok(Err(e)) => json!({"ok": false, "secs": "", "offset": 0, "neg": false, "err": e.to_string()}),
        Err(p) => json!({"ok": false, "secs": "", "offset": 0, "neg": false, "err": "", "parse_panic": p}),
    }
}

fn main() {
    run(|case| match jstr(&case["op"]) {
        "format" => {
            let secs: i64 = jstr(&case["secs"]).parse().expect("decimal seconds");
            let offset = jint(&case["offset"]) as i32;
            let mut t = gix_date::Time::new(secs, offset);
            if jbool(&case["negz"]) {
                t.sign = Sign::Minus;
            }
            let f = fmt_of(jstr(&case["fmt"]));
            match guarded(|| t.format(f)) {
                Ok(text) => json!({"text": jbytes(text.as_bytes()), "parse": parse_json(&text)}),
                Err(p) => json!({"format_panic": p}),
            }
        }
        "parse" => {
            let text = String::from_utf8(bytes(&case["text"])).expect("utf8 text");
            json!({"parse": parse_json(&text)})
        }
        other => panic!("unknown op {other}"),
    });
}
