//! C49 executor: index-to-worktree status.
//! case: {"repo": "<worktree path>", "untracked": "no"|"normal"|"all", "ignored": bool}
//! got:  {"items": [{"path": text, "code": "M"|"D"|"T"|"A"|"U"|"?"|"!", "dir": bool, "detail": text}..]}
//!   M/D/T/A/U: Item::Modification (content or mode change / removed / type change / intent-to-add / conflict),
//!   ?: untracked directory-walk entry, !: ignored one.  N = EntryStatus::NeedsUpdate (stat refresh only: not part of the status,
//!   kept for diagnostics).
//! The repository is opened afresh for every case (the index is read from disk, its timestamp included).
use vhlib::*;

fn main() {
    run(|case| {
        let repo = gix::open(jstr(&case["repo"])).expect("open repository");
        if case["op"].as_str() == Some("index-timestamp") {
            // diagnostics: the timestamp gix attaches to the index it loaded (what racy-git detection compares mtimes with)
            let index = repo.index().expect("index");
            let ts = index.timestamp();
            return json!({"index_timestamp_secs": ts.unix_seconds(), "index_timestamp_nanos": ts.nanoseconds()});
        }
        let untracked = match jstr(&case["untracked"]) {
            "no" => gix::status::UntrackedFiles::None,
            "normal" => gix::status::UntrackedFiles::Collapsed,
            "all" => gix::status::UntrackedFiles::Files,
            other => panic!("unknown untracked mode {other}"),
        };
        let ignored = jbool(&case["ignored"]);
        let mode = match jstr(&case["untracked"]) {
            "all" => gix::dir::walk::EmissionMode::Matching,
            _ => gix::dir::walk::EmissionMode::CollapseDirectory,
        };
        let platform = repo
            .status(gix::progress::Discard)
            .expect("status platform")
            .untracked_files(untracked)
            .dirwalk_options(|o| if ignored { o.emit_ignored(Some(mode)) } else { o });
        let iter = platform.into_index_worktree_iter(Vec::new()).expect("status iterator");
        let mut items = Vec::new();
        for item in iter {
            let item = match item {
                Ok(i) => i,
                Err(e) => {
                    items.push(json!({"path": "", "code": "E", "dir": false, "detail": e.to_string()}));
                    continue;
                }
            };
            use gix::status::index_worktree::iter::Item;
            use gix::status::plumbing::index_as_worktree::{Change, EntryStatus};
            match &item {
                Item::Modification { rela_path, status, .. } => {
                    let code = match status {
                        EntryStatus::Conflict(_) => "U",
                        EntryStatus::Change(Change::Removed) => "D",
                        EntryStatus::Change(Change::Type) => "T",
                        EntryStatus::Change(Change::Modification { .. }) => "M",
                        EntryStatus::Change(Change::SubmoduleModification(_)) => "S",
                        EntryStatus::NeedsUpdate(_) => "N",
                        EntryStatus::IntentToAdd => "A",
                    };
                    items.push(json!({"path": rela_path.to_string(), "code": code, "dir": false, "detail": format!("{status:?}").chars().take(120).collect::<String>()}));
                }
                Item::DirectoryContents { entry, .. } => {
                    let code = match entry.status {
                        gix::dir::entry::Status::Untracked => "?",
                        gix::dir::entry::Status::Ignored(_) => "!",
                        gix::dir::entry::Status::Pruned => "P",
                        gix::dir::entry::Status::Tracked => "K",
                    };
                    let dir = matches!(entry.disk_kind, Some(gix::dir::entry::Kind::Directory | gix::dir::entry::Kind::Repository));
                    items.push(json!({"path": entry.rela_path.to_string(), "code": code, "dir": dir, "detail": format!("{:?}", entry.disk_kind)}));
                }
                Item::Rewrite { dirwalk_entry, .. } => {
                    items.push(json!({"path": dirwalk_entry.rela_path.to_string(), "code": "R", "dir": false, "detail": ""}));
                }
            }
        }
        json!({"items": items})
    });
}
