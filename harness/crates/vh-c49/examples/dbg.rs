fn main() {
    let repo = gix::open(std::env::args().nth(1).unwrap()).unwrap();
    let index = repo.index().unwrap();
    let ts = index.timestamp();
    for e in index.entries() {
        let path = e.path(&index);
        let md = gix::index::fs::Metadata::from_path_no_follow(&repo.work_dir().unwrap().join(path.to_string())).unwrap();
        let st = gix::index::entry::Stat::from_fs(&md).unwrap();
        let opts = gix::index::entry::stat::Options::default();
        println!("{path}: entry.stat={:?}\n   fs.stat={:?}\n   matches={} is_racy={} ts={}", e.stat, st, st.matches(&e.stat, opts), st.is_racy(ts, opts), ts.unix_seconds());
    }
}
