//! C36 executor: gitoxide's wildcard matcher.
//! case: {"pattern": [bytes], "texts": [[bytes]..]}  or  {"pattern": [bytes], "texts_file": "<path of a JSON array of byte arrays>"}
//! got:  {"wm": [[r00, r01, r10, r11]..]            gix_glob::wildmatch(pattern, text, mode); r<pn><cf> as 0/1
//!        "ptext": [bytes] | null, "pmode": bits    gix_glob::Pattern::from_bytes_without_negation(pattern)
//!        "pm": [[..4..]..] | null}                 Pattern::matches(text, mode) of that pattern
use std::cell::RefCell;
use std::collections::HashMap;
use std::rc::Rc;

use bstr::ByteSlice;
use gix_glob::wildmatch::Mode;
use vhlib::*;

fn modes() -> [Mode; 4] {
    [
        Mode::empty(),
        Mode::IGNORE_CASE,
        Mode::NO_MATCH_SLASH_LITERAL,
        Mode::NO_MATCH_SLASH_LITERAL | Mode::IGNORE_CASE,
    ]
}

fn main() {
    let files: RefCell<HashMap<String, Rc<Vec<Vec<u8>>>>> = RefCell::new(HashMap::new());
    run(|case| {
        let pattern = bytes(&case["pattern"]);
        let texts: Rc<Vec<Vec<u8>>> = match case.get("texts_file").and_then(|v| v.as_str()) {
            Some(path) => files
                .borrow_mut()
                .entry(path.to_string())
                .or_insert_with(|| {
                    let v: Json = serde_json::from_slice(&std::fs::read(path).expect("texts_file")).expect("texts json");
                    Rc::new(bytes_list(&v))
                })
                .clone(),
            None => Rc::new(bytes_list(&case["texts"])),
        };
        let wm: Vec<Json> = texts
            .iter()
            .map(|t| {
                Json::Array(
                    modes()
                        .iter()
                        .map(|m| Json::from(gix_glob::wildmatch(pattern.as_bstr(), t.as_bstr(), *m) as u8))
                        .collect(),
                )
            })
            .collect();
        let mut out = json!({"wm": wm, "ptext": Json::Null, "pmode": 0, "pm": Json::Null});
        if let Some(pat) = gix_glob::Pattern::from_bytes_without_negation(&pattern) {
            out["ptext"] = jbytes(&pat.text);
            out["pmode"] = Json::from(pat.mode.bits());
            let pm: Vec<Json> = texts
                .iter()
                .map(|t| {
                    Json::Array(
                        modes()
                            .iter()
                            .map(|m| Json::from(pat.matches(t.as_bstr(), *m) as u8))
                            .collect(),
                    )
                })
                .collect();
            out["pm"] = Json::Array(pm);
        }
        out
    });
}
