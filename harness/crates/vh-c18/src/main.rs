//! C18 executor: lookup and iteration over a mixed loose / packed reference store.
//! case: {"loose": [{name: bytes, val: "o1"|"o2"}], "packed": [...], "prefixed": [{prefix: bytes, ..}], "find": [{short: bytes, ..}], "git": bool}
//! env: VERIF_C16_TEMPLATE (bare repo with objects), VERIF_C16_OIDS ("o1=<hex>,o2=<hex>")
//! got: {"all": [{name, val}], "prefixed": [{prefix, items}], "find": [{short, hit: {name, val}}], "git_all": [...]|null, "git_find": [...]|null}
use bstr::ByteSlice;
use std::path::{Path, PathBuf};
use vhlib::*;

fn oid_hex(name: &str) -> String {
    let all = std::env::var("VERIF_C16_OIDS").expect("VERIF_C16_OIDS");
    all.split(',').find_map(|kv| kv.split_once('=').filter(|(k, _)| *k == name).map(|(_, v)| v.to_string())).expect("oid")
}
fn oid_name(hex: &str) -> String {
    for n in ["o1", "o2"] {
        if oid_hex(n) == hex {
            return n.into();
        }
    }
    hex.into()
}

fn repo_dir() -> PathBuf {
    let work = PathBuf::from(std::env::var("VERIF_WORK").expect("VERIF_WORK"));
    let dir = work.join(format!("c18-repo-{}", std::process::id()));
    if !dir.exists() {
        let template = std::env::var("VERIF_C16_TEMPLATE").expect("VERIF_C16_TEMPLATE");
        assert!(std::process::Command::new("cp").arg("-r").arg(&template).arg(&dir).status().expect("cp").success());
    }
    dir
}

fn materialise(git_dir: &Path, case: &Json) {
    let _ = std::fs::remove_dir_all(git_dir.join("refs"));
    let _ = std::fs::remove_file(git_dir.join("packed-refs"));
    std::fs::create_dir_all(git_dir.join("refs/heads")).unwrap();
    std::fs::create_dir_all(git_dir.join("refs/tags")).unwrap();
    std::fs::write(git_dir.join("HEAD"), b"ref: refs/heads/unborn\n").unwrap();
    for e in case["loose"].as_array().expect("loose") {
        let name = bytes(&e["name"]);
        let p = git_dir.join(name.to_str().expect("utf8 names"));
        std::fs::create_dir_all(p.parent().unwrap()).unwrap();
        std::fs::write(p, format!("{}\n", oid_hex(jstr(&e["val"])))).unwrap();
    }
    let mut lines: Vec<(Vec<u8>, String)> =
        case["packed"].as_array().expect("packed").iter().map(|e| (bytes(&e["name"]), oid_hex(jstr(&e["val"])))).collect();
    if !lines.is_empty() {
        lines.sort();
        let mut s = Vec::from(&b"# pack-refs with: peeled fully-peeled sorted \n"[..]);
        for (n, o) in lines {
            s.extend_from_slice(o.as_bytes());
            s.push(b' ');
            s.extend_from_slice(&n);
            s.push(b'\n');
        }
        std::fs::write(git_dir.join("packed-refs"), s).unwrap();
    }
}

fn jref(r: &gix_ref::Reference) -> Json {
    let val = match &r.target {
        gix_ref::Target::Object(id) => oid_name(&id.to_hex().to_string()),
        gix_ref::Target::Symbolic(n) => format!("sym:{}", n.as_bstr()),
    };
    json!({"name": jbytes(r.name.as_bstr()), "val": val})
}

fn collect(it: std::io::Result<gix_ref::file::iter::LooseThenPacked<'_, '_>>) -> Json {
    match it {
        Err(e) => json!([{"error": e.to_string()}]),
        Ok(it) => Json::Array(
            it.map(|r| match r {
                Ok(r) => jref(&r),
                Err(e) => json!({"error": e.to_string()}),
            })
            .collect(),
        ),
    }
}

fn git_out(git_dir: &Path, args: &[&str]) -> Option<Vec<u8>> {
    let o = std::process::Command::new("git")
        .arg("--git-dir")
        .arg(git_dir)
        .args(args)
        .env("GIT_CONFIG_NOSYSTEM", "1")
        .env("GIT_CONFIG_GLOBAL", "/dev/null")
        .output()
        .expect("git");
    o.status.success().then_some(o.stdout)
}

fn main() {
    run(|case| {
        let git_dir = repo_dir();
        materialise(&git_dir, case);
        let store = gix_ref::file::Store::at(git_dir.clone(), Default::default());
        let platform = store.iter().expect("iter platform");
        let all = collect(platform.all());
        let mut prefixed = Vec::new();
        for p in case["prefixed"].as_array().expect("prefixed") {
            let prefix = bytes(&p["prefix"]);
            // "refs/heads/" and "refs/heads" are documented to be equivalent
            let path = PathBuf::from(prefix.to_str().unwrap().trim_end_matches('/'));
            prefixed.push(json!({"prefix": jbytes(&prefix), "items": collect(platform.prefixed(&path))}));
        }
        let mut find = Vec::new();
        for f in case["find"].as_array().expect("find") {
            let short = bytes(&f["short"]);
            let hit = match store.try_find(short.as_bstr()) {
                Ok(Some(r)) => jref(&r),
                Ok(None) => json!({"name": [], "val": "none"}),
                Err(e) => json!({"error": e.to_string()}),
            };
            find.push(json!({"short": jbytes(&short), "hit": hit}));
        }
        let (mut git_all, mut git_find) = (Json::Null, Json::Null);
        if case["git"].as_bool().unwrap_or(false) {
            git_all = match git_out(&git_dir, &["for-each-ref", "--format=%(refname) %(objectname)"]) {
                None => json!([{"error": "for-each-ref failed"}]),
                Some(out) => Json::Array(
                    out.lines()
                        .map(|l| {
                            let (n, o) = l.split_at(l.find_byte(b' ').unwrap());
                            json!({"name": jbytes(n), "val": oid_name(o[1..].to_str().unwrap())})
                        })
                        .collect(),
                ),
            };
            let mut gf = Vec::new();
            for f in case["find"].as_array().expect("find") {
                let short = bytes(&f["short"]);
                let s = short.to_str().unwrap();
                // the id first: for an ambiguous short name git still resolves (with a warning), but refuses to print the full name
                let id = git_out(&git_dir, &["rev-parse", "--verify", "-q", s]).unwrap_or_default();
                let name = git_out(&git_dir, &["rev-parse", "--symbolic-full-name", "--verify", "-q", s]).unwrap_or_default();
                let hit = if id.trim().is_empty() {
                    json!({"name": [], "val": "none"})
                } else {
                    json!({"name": jbytes(name.trim()), "val": oid_name(id.trim().to_str().unwrap())})
                };
                gf.push(json!({"short": jbytes(&short), "hit": hit}));
            }
            git_find = Json::Array(gf);
        }
        json!({"all": all, "prefixed": prefixed, "find": find, "git_all": git_all, "git_find": git_find})
    });
}
