//! C09 executor: pack index and multi-pack-index lookups.
//!  {"op":"idx",  path, queries:[{id:[20 bytes], hexlen}], list:bool}
//!  {"op":"midx", path, queries, list}
//!  {"op":"midx_write", indices:[paths], out: path}      (gitoxide's multi-index writer)
//! result of a query: {lookup: index|-1|-2(not asked), at:{id, ofs:[8 bytes BE], crc:[4 bytes]|[], pack},
//!                     prefix:{kind,index}, prefix_c:{kind,index,start,end}}
use gix_pack::index::PrefixLookupResult;
use std::ops::Range;
use vhlib::*;

fn be64(v: u64) -> Json {
    jbytes(&v.to_be_bytes())
}

fn prefix_json(r: Option<PrefixLookupResult>, range: Option<Range<u32>>) -> Json {
    let (kind, index) = match r {
        None => ("none", -1i64),
        Some(Ok(i)) => ("unique", i64::from(i)),
        Some(Err(())) => ("ambiguous", -1),
    };
    match range {
        Some(r) => json!({"kind": kind, "index": index, "start": r.start, "end": r.end}),
        None => json!({"kind": kind, "index": index, "start": 0, "end": 0}),
    }
}

trait Table {
    fn lookup_id(&self, id: &gix_hash::oid) -> Option<u32>;
    fn prefix(&self, p: gix_hash::Prefix, c: Option<&mut Range<u32>>) -> Option<PrefixLookupResult>;
    fn at(&self, i: u32) -> Json;
    fn len(&self) -> u32;
}

impl Table for gix_pack::index::File {
    fn lookup_id(&self, id: &gix_hash::oid) -> Option<u32> {
        self.lookup(id)
    }
    fn prefix(&self, p: gix_hash::Prefix, c: Option<&mut Range<u32>>) -> Option<PrefixLookupResult> {
        self.lookup_prefix(p, c)
    }
    fn at(&self, i: u32) -> Json {
        json!({"id": jbytes(self.oid_at_index(i).as_bytes()), "ofs": be64(self.pack_offset_at_index(i)),
               "crc": self.crc32_at_index(i).map(|c| jbytes(&c.to_be_bytes())).unwrap_or_else(|| jbytes(b"")), "pack": 0})
    }
    fn len(&self) -> u32 {
        self.num_objects()
    }
}

impl Table for gix_pack::multi_index::File {
    fn lookup_id(&self, id: &gix_hash::oid) -> Option<u32> {
        self.lookup(id)
    }
    fn prefix(&self, p: gix_hash::Prefix, c: Option<&mut Range<u32>>) -> Option<PrefixLookupResult> {
        self.lookup_prefix(p, c)
    }
    fn at(&self, i: u32) -> Json {
        let (pack, ofs) = self.pack_id_and_pack_offset_at_index(i);
        json!({"id": jbytes(self.oid_at_index(i).as_bytes()), "ofs": be64(ofs), "crc": [], "pack": pack})
    }
    fn len(&self) -> u32 {
        self.num_objects()
    }
}

fn no_entry() -> Json {
    json!({"id": [], "ofs": [], "crc": [], "pack": 0})
}

fn queries(t: &dyn Table, case: &Json) -> Json {
    let mut out = Vec::new();
    for q in case["queries"].as_array().map(|a| a.as_slice()).unwrap_or(&[]) {
        let id = gix_hash::ObjectId::from_bytes_or_panic(&bytes(&q["id"]));
        let hexlen = jint(&q["hexlen"]) as usize;
        let (lookup, at) = if hexlen == 40 {
            match t.lookup_id(&id) {
                Some(i) => (i64::from(i), t.at(i)),
                None => (-1, no_entry()),
            }
        } else {
            (-2, no_entry())
        };
        let prefix = gix_hash::Prefix::new(&id, hexlen).expect("valid prefix length");
        let plain = t.prefix(prefix, None);
        let mut range = 7..7;
        let with = t.prefix(prefix, Some(&mut range));
        out.push(json!({"lookup": lookup, "at": at, "prefix": prefix_json(plain, None), "prefix_c": prefix_json(with, Some(range))}));
    }
    Json::Array(out)
}

fn listing(t: &dyn Table, want: bool) -> Json {
    if !want {
        return json!([]);
    }
    Json::Array((0..t.len()).map(|i| t.at(i)).collect())
}

fn main() {
    run(|case| match jstr(&case["op"]) {
        "idx" => match gix_pack::index::File::at(jstr(&case["path"]), gix_hash::Kind::Sha1) {
            Ok(f) => {
                let iter: Vec<Json> = if jbool(&case["list"]) {
                    f.iter()
                        .map(|e| json!({"id": jbytes(e.oid.as_bytes()), "ofs": be64(e.pack_offset),
                            "crc": e.crc32.map(|c| jbytes(&c.to_be_bytes())).unwrap_or_else(|| jbytes(b"")), "pack": 0}))
                        .collect()
                } else {
                    Vec::new()
                };
                json!({"ok": true, "err": "", "n": f.num_objects(), "names": [], "results": queries(&f, case),
                       "list": listing(&f, jbool(&case["list"])), "iter": iter})
            }
            Err(e) => json!({"ok": false, "err": e.to_string(), "n": 0, "names": [], "results": [], "list": [], "iter": []}),
        },
        "midx" => match gix_pack::multi_index::File::at(jstr(&case["path"])) {
            Ok(f) => {
                let iter: Vec<Json> = if jbool(&case["list"]) {
                    f.iter()
                        .map(|e| json!({"id": jbytes(e.oid.as_bytes()), "ofs": be64(e.pack_offset), "crc": [], "pack": e.pack_index}))
                        .collect()
                } else {
                    Vec::new()
                };
                let names: Vec<Json> = f.index_names().iter().map(|p| jbytes(p.to_string_lossy().as_bytes())).collect();
                json!({"ok": true, "err": "", "n": f.num_objects(), "names": names, "results": queries(&f, case),
                       "list": listing(&f, jbool(&case["list"])), "iter": iter})
            }
            Err(e) => json!({"ok": false, "err": e.to_string(), "n": 0, "names": [], "results": [], "list": [], "iter": []}),
        },
        "midx_write" => {
            let paths: Vec<std::path::PathBuf> = case["indices"].as_array().expect("indices").iter().map(|p| jstr(p).into()).collect();
            let mut out = std::fs::File::create(jstr(&case["out"])).expect("create output");
            let res = gix_pack::multi_index::File::write_from_index_paths(
                paths,
                &mut out,
                &mut gix_features::progress::Discard,
                &std::sync::atomic::AtomicBool::new(false),
                gix_pack::multi_index::write::Options { object_hash: gix_hash::Kind::Sha1 },
            );
            match res {
                Ok(o) => json!({"ok": true, "err": "", "checksum": jbytes(o.multi_index_checksum.as_bytes())}),
                Err(e) => json!({"ok": false, "err": e.to_string(), "checksum": []}),
            }
        }
        other => panic!("unknown op {other}"),
    });
}
