//! C27 executor: what gix_config::File answers for queries on a config text.
//! case: {"input": [bytes], "home": [bytes], "queries": [{"sec","hassub","sub","key"}]}
//! got:  {file_ok, answers: [{strings, strings_key, string, bool, int, path}]}
//!   strings      raw_values_by(sec, sub, key)         -> {"kind":"ok","l":[[bytes]..]} | {"kind":"none"}
//!   strings_key  strings("sec.sub.key") (key-string API, when the key is UTF-8; else kind "skip")
//!   string       string_by(..)                         -> {"kind":"ok","v":bytes} | none
//!   bool         boolean_by(..)                        -> ok "true"/"false" | err | none
//!   int          integer_by(..)                        -> ok decimal | err | none
//!   path         path_by(..).interpolate(home)         -> ok bytes | err | none
use bstr::{BStr, BString, ByteSlice};
use vhlib::*;

fn ok(v: &[u8]) -> Json {
    json!({"kind": "ok", "v": jbytes(v)})
}
fn kind(k: &str) -> Json {
    json!({"kind": k, "v": []})
}

fn main() {
    run(|case| {
        let input = bytes(&case["input"]);
        let home = std::path::PathBuf::from(String::from_utf8(bytes(&case["home"])).expect("utf8 home"));
        let file = match gix_config::File::from_bytes_no_includes(&input, gix_config::file::Metadata::api(), Default::default()) {
            Ok(f) => f,
            Err(e) => return json!({"file_ok": false, "err": e.to_string()}),
        };
        let mut answers = Vec::new();
        for q in case["queries"].as_array().expect("queries") {
            let sec = String::from_utf8(bytes(&q["sec"])).expect("ascii section");
            let key = String::from_utf8(bytes(&q["key"])).expect("ascii key");
            let subv: BString = bytes(&q["sub"]).into();
            let sub: Option<&BStr> = if jbool(&q["hassub"]) { Some(subv.as_bstr()) } else { None };
            let mut a = json!({});
            a["strings"] = match file.raw_values_by(&sec, sub, &key) {
                Ok(l) => json!({"kind": "ok", "l": l.iter().map(|v| jbytes(v.as_ref())).collect::<Vec<_>>()}),
                Err(_) => json!({"kind": "none", "l": []}),
            };
            // the same through the dotted key string
            let mut ks: Vec<u8> = sec.as_bytes().to_vec();
            if let Some(s) = sub {
                ks.push(b'.');
                ks.extend_from_slice(s);
            }
            ks.push(b'.');
            ks.extend_from_slice(key.as_bytes());
            a["strings_key"] = match file.strings(BString::from(ks).as_bstr()) {
                Some(l) => json!({"kind": "ok", "l": l.iter().map(|v| jbytes(v.as_ref())).collect::<Vec<_>>()}),
                None => json!({"kind": "none", "l": []}),
            };
            a["string"] = match file.string_by(&sec, sub, &key) {
                Some(v) => ok(v.as_ref()),
                None => kind("none"),
            };
            a["bool"] = match file.boolean_by(&sec, sub, &key) {
                Some(Ok(b)) => ok(if b { b"true" } else { b"false" }),
                Some(Err(_)) => kind("err"),
                None => kind("none"),
            };
            a["int"] = match file.integer_by(&sec, sub, &key) {
                Some(Ok(i)) => ok(i.to_string().as_bytes()),
                Some(Err(_)) => kind("err"),
                None => kind("none"),
            };
            a["path"] = match file.path_by(&sec, sub, &key) {
                Some(p) => {
                    let ctx = gix_config::path::interpolate::Context {
                        git_install_dir: None,
                        home_dir: Some(&home),
                        home_for_user: None,
                    };
                    match p.interpolate(ctx) {
                        Ok(p) => {
                            use std::os::unix::ffi::OsStrExt;
                            ok(p.as_os_str().as_bytes())
                        }
                        Err(_) => kind("err"),
                    }
                }
                None => kind("none"),
            };
            answers.push(a);
        }
        json!({"file_ok": true, "answers": answers})
    });
}
