//! C41 executor: gix_worktree_state::checkout of an index that is built here without validation.
//!
//! case: {"dest": "<existing directory>", "entries": [{"path": [bytes], "kind": "file"|"exec"|"link", "data": [bytes]}..]  (any order; sorted here),
//!        "overwrite": bool, "empty": bool, "threads": n, "keep_going": bool}
//!        blobs live in an in-memory object database; `.gitattributes` entries of the index are honoured (IdMapping source).
//! got:  {"ok", "err", "files_updated", "bytes_written", "collisions": [[path bytes, kind]], "errors": [[path bytes, message]]}
use bstr::ByteSlice;
use std::collections::HashMap;
use std::sync::atomic::AtomicBool;
use std::sync::Arc;
use vhlib::*;

#[derive(Clone)]
struct Mem(Arc<HashMap<gix_hash::ObjectId, Vec<u8>>>);

impl gix_object::Find for Mem {
    fn try_find<'a>(
        &self,
        id: &gix_hash::oid,
        buffer: &'a mut Vec<u8>,
    ) -> Result<Option<gix_object::Data<'a>>, gix_object::find::Error> {
        Ok(self.0.get(id).map(|data| {
            buffer.clear();
            buffer.extend_from_slice(data);
            gix_object::Data { kind: gix_object::Kind::Blob, data: buffer.as_slice() }
        }))
    }
}

fn main() {
    run(|case| {
        let mut index = gix_index::State::new(gix_hash::Kind::Sha1);
        let mut blobs = HashMap::new();
        for e in case["entries"].as_array().expect("entries") {
            let data = bytes(&e["data"]);
            let id = gix_object::compute_hash(gix_hash::Kind::Sha1, gix_object::Kind::Blob, &data);
            blobs.insert(id, data);
            let mode = match jstr(&e["kind"]) {
                "file" => gix_index::entry::Mode::FILE,
                "exec" => gix_index::entry::Mode::FILE_EXECUTABLE,
                "link" => gix_index::entry::Mode::SYMLINK,
                other => panic!("kind {other}"),
            };
            index.dangerously_push_entry(Default::default(), id, gix_index::entry::Flags::empty(), mode, bytes(&e["path"]).as_bstr());
        }
        index.sort_entries();
        let threads = jint(&case["threads"]);
        let options = gix_worktree_state::checkout::Options {
            fs: gix_fs::Capabilities { symlink: true, executable_bit: true, ignore_case: false, precompose_unicode: false },
            thread_limit: if threads > 0 { Some(threads as usize) } else { None },
            destination_is_initially_empty: jbool(&case["empty"]),
            overwrite_existing: jbool(&case["overwrite"]),
            keep_going: jbool(&case["keep_going"]),
            attributes: gix_worktree::stack::state::Attributes::new(
                Default::default(),
                None,
                gix_worktree::stack::state::attributes::Source::IdMapping,
                Default::default(),
            ),
            ..Default::default()
        };
        let interrupt = AtomicBool::new(false);
        let files = gix_features::progress::Discard;
        let bytes_p = gix_features::progress::Discard;
        match gix_worktree_state::checkout(&mut index, jstr(&case["dest"]), Mem(Arc::new(blobs)), &files, &bytes_p, &interrupt, options) {
            Ok(out) => json!({
                "ok": true, "err": "", "files_updated": out.files_updated, "bytes_written": out.bytes_written,
                "collisions": out.collisions.iter().map(|c| json!([jbytes(&c.path), format!("{:?}", c.error_kind)])).collect::<Vec<_>>(),
                "errors": out.errors.iter().map(|e| json!([jbytes(&e.path), e.error.to_string()])).collect::<Vec<_>>(),
            }),
            Err(e) => json!({"ok": false, "err": e.to_string(), "files_updated": 0, "bytes_written": 0, "collisions": [], "errors": []}),
        }
    });
}
