//! C19 executor: packed-refs buffer lookups.
//! case: {"buf": [bytes], "queries": [{"q": [bytes]}, ..]}
//! got:  {open_ok, open_err, iter: [{ok, name, target, peeled}], results: [{kind, name, target, peeled, find}]}
//!       kind = "found" | "none" | "err"; find = what `find` (the non-try variant) reported.
use bstr::ByteSlice;
use gix_ref::packed;
use vhlib::*;

fn rec(r: &packed::Reference<'_>) -> (Json, Json, Json) {
    (
        jbytes(r.name.as_bstr()),
        jbytes(r.target),
        r.object.map(|o| jbytes(o)).unwrap_or_else(|| jbytes(b"")),
    )
}

fn main() {
    run(|case| {
        let buf = bytes(&case["buf"]);
        let b = match packed::Buffer::from_bytes(&buf) {
            Ok(b) => b,
            Err(e) => return json!({"open_ok": false, "open_err": e.to_string(), "iter": [], "results": []}),
        };
        let mut iter = Vec::new();
        match b.iter() {
            Ok(it) => {
                for r in it {
                    match r {
                        Ok(r) => {
                            let (n, t, p) = rec(&r);
                            iter.push(json!({"ok": true, "name": n, "target": t, "peeled": p}));
                        }
                        Err(_) => iter.push(json!({"ok": false, "name": [], "target": [], "peeled": []})),
                    }
                }
            }
            Err(_) => iter.push(json!({"ok": false, "name": [], "target": [], "peeled": []})),
        }
        let mut results = Vec::new();
        for q in case["queries"].as_array().map(|a| a.as_slice()).unwrap_or(&[]) {
            let name = bytes(&q["q"]);
            let find = match b.find(name.as_bstr()) {
                Ok(_) => "found",
                Err(packed::find::existing::Error::NotFound) => "none",
                Err(packed::find::existing::Error::Find(_)) => "err",
            };
            let r = match b.try_find(name.as_bstr()) {
                Ok(Some(r)) => {
                    let (n, t, p) = rec(&r);
                    json!({"kind": "found", "name": n, "target": t, "peeled": p, "find": find, "err": ""})
                }
                Ok(None) => json!({"kind": "none", "name": [], "target": [], "peeled": [], "find": find, "err": ""}),
                Err(e) => json!({"kind": "err", "name": [], "target": [], "peeled": [], "find": find, "err": e.to_string()}),
            };
            results.push(r);
        }
        json!({"open_ok": true, "open_err": "", "iter": iter, "results": results})
    });
}
