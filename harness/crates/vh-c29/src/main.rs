//! C29 executor: pkt-line framing.
//! op "enc": {"line": {"t","ch","d"}}            -> {ok, err, bytes, ok2, bytes2}  (encode::*_to_write, *Ref::write_to)
//! op "wr":  {"d": bytes, "binary": bool}         -> {ok, bytes, written}           (Writer)
//! op "dec": {"input": bytes}                     -> {s, k, d, used, need, err, all_ok}  (decode::streaming / all_at_once)
//! op "run": {"stream","delims":[kind..],"foe","h","kind","calls":[{"op","n"}],"chunks":[[sizes..]..]}
//!           -> [[outcome..] per chunking]; a chunking is a cyclic list of read sizes, 0 = everything available.
//!           outcome = {k, d, c, stop, prog:[{err,d}]}
use gix_packetline::{decode, encode, read::ProgressAction, Channel, PacketLineRef, StreamingPeekableIter};
use std::cell::RefCell;
use std::io::{self, Read};
use std::rc::Rc;
use vhlib::*;

struct Chunked {
    data: Vec<u8>,
    pos: usize,
    sizes: Vec<usize>,
    turn: usize,
}

impl Read for Chunked {
    fn read(&mut self, buf: &mut [u8]) -> io::Result<usize> {
        let avail = self.data.len() - self.pos;
        let want = self.sizes[self.turn % self.sizes.len()];
        self.turn += 1;
        let n = if want == 0 { avail } else { want.min(avail) }.min(buf.len());
        buf[..n].copy_from_slice(&self.data[self.pos..self.pos + n]);
        self.pos += n;
        Ok(n)
    }
}

fn dclass(e: &decode::Error) -> &'static str {
    match e {
        decode::Error::HexDecode { .. } => "hex",
        decode::Error::DataLengthLimitExceeded { .. } => "toolong",
        decode::Error::DataIsEmpty => "empty",
        decode::Error::InvalidLineLength => "len3",
        decode::Error::Line { .. } => "line",
        decode::Error::NotEnoughData { .. } => "short",
    }
}

fn kind_of(l: &PacketLineRef<'_>) -> (&'static str, Vec<u8>) {
    match l {
        PacketLineRef::Data(d) => ("data", d.to_vec()),
        PacketLineRef::Flush => ("flush", vec![]),
        PacketLineRef::Delimiter => ("delim", vec![]),
        PacketLineRef::ResponseEnd => ("rend", vec![]),
    }
}

fn stop_name(s: Option<PacketLineRef<'static>>) -> &'static str {
    match s {
        None => "",
        Some(l) => kind_of(&l).0,
    }
}

fn out(k: &str, d: &[u8], c: &str) -> Json {
    json!({"k": k, "d": jbytes(d), "c": c, "stop": "", "prog": []})
}

fn ioerr(e: &io::Error) -> Json {
    if let Some(inner) = e.get_ref() {
        if let Some(pe) = inner.downcast_ref::<gix_packetline::read::Error>() {
            return out("ioerr", &pe.message, "errline");
        }
        if let Some(de) = inner.downcast_ref::<decode::Error>() {
            return out("ioerr", &[], &format!("d:{}", dclass(de)));
        }
        if inner.downcast_ref::<decode::band::Error>().is_some() {
            return out("ioerr", &[], "band");
        }
        if inner.downcast_ref::<std::str::Utf8Error>().is_some() {
            return out("ioerr", &[], "utf8");
        }
        if e.kind() == io::ErrorKind::UnexpectedEof {
            return out("ioerr", &[], "nondata");
        }
        return out("ioerr", &[], &format!("other:{e}"));
    }
    if e.kind() == io::ErrorKind::UnexpectedEof {
        out("ioerr", &[], "eof")
    } else {
        out("ioerr", &[], &format!("other:{e}"))
    }
}

fn line_result(r: Option<io::Result<Result<PacketLineRef<'_>, decode::Error>>>) -> Json {
    match r {
        None => out("none", &[], ""),
        Some(Err(e)) => ioerr(&e),
        Some(Ok(Err(e))) => out("derr", &[], dclass(&e)),
        Some(Ok(Ok(l))) => {
            let (k, d) = kind_of(&l);
            out(k, &d, "")
        }
    }
}

fn delims(v: &Json) -> &'static [PacketLineRef<'static>] {
    let mut d = Vec::new();
    for k in v.as_array().expect("delims") {
        d.push(match jstr(k) {
            "flush" => PacketLineRef::Flush,
            "delim" => PacketLineRef::Delimiter,
            "rend" => PacketLineRef::ResponseEnd,
            other => panic!("unknown delimiter {other}"),
        });
    }
    Box::leak(d.into_boxed_slice())
}

fn run_once(case: &Json, sizes: Vec<usize>) -> Json {
    let src = Chunked { data: bytes(&case["stream"]), pos: 0, sizes, turn: 0 };
    let mut rd = StreamingPeekableIter::new(src, delims(&case["delims"]), false);
    rd.fail_on_err_lines(jbool(&case["foe"]));
    let calls = case["calls"].as_array().expect("calls");
    let mut outs = Vec::new();
    if jstr(&case["kind"]) == "lines" {
        for c in calls {
            let mut o = match jstr(&c["op"]) {
                "read" => line_result(rd.read_line()),
                "peek" => line_result(rd.peek_line()),
                "reset" => {
                    rd.reset();
                    out("ok", &[], "")
                }
                other => panic!("op {other} in a lines session"),
            };
            o["stop"] = Json::from(stop_name(rd.stopped_at()));
            outs.push(o);
        }
    } else {
        let prog: Rc<RefCell<Vec<Json>>> = Rc::new(RefCell::new(Vec::new()));
        let p2 = prog.clone();
        let handler = move |is_err: bool, text: &[u8]| {
            p2.borrow_mut().push(json!({"err": is_err, "d": jbytes(text)}));
            ProgressAction::Continue
        };
        let mut sb = if jbool(&case["h"]) {
            rd.as_read_with_sidebands(handler)
        } else {
            rd.as_read_without_sidebands()
        };
        let mut poisoned = false;
        for c in calls {
            if poisoned {
                // read_line_to_string reported ill-formed UTF-8: the reader documents that it must not be used
                // further (it keeps a partial buffer and asserts); the specification does not judge these calls.
                outs.push(json!({"k": "skipped", "d": [], "c": "", "stop": "", "prog": []}));
                continue;
            }
            let mut o = match jstr(&c["op"]) {
                "sbread" => {
                    let mut buf = vec![0u8; jint(&c["n"]) as usize];
                    match sb.read(&mut buf) {
                        Ok(n) => out("bytes", &buf[..n], ""),
                        Err(e) => ioerr(&e),
                    }
                }
                "sbline" => {
                    let mut s = String::new();
                    match sb.read_line_to_string(&mut s) {
                        Ok(n) => {
                            assert_eq!(n, s.len());
                            out("bytes", s.as_bytes(), "")
                        }
                        Err(e) => ioerr(&e),
                    }
                }
                "sbpeek" => match sb.peek_data_line() {
                    None => out("none", &[], ""),
                    Some(Err(e)) => ioerr(&e),
                    Some(Ok(Err(e))) => out("derr", &[], dclass(&e)),
                    Some(Ok(Ok(d))) => out("data", d, ""),
                },
                other => panic!("op {other} in a side-band session"),
            };
            poisoned = o["k"] == "ioerr" && o["c"] == "utf8";
            o["stop"] = Json::from(stop_name(sb.stopped_at()));
            o["prog"] = Json::Array(std::mem::take(&mut *prog.borrow_mut()));
            outs.push(o);
        }
    }
    Json::Array(outs)
}

fn enc(case: &Json) -> Json {
    let l = &case["line"];
    let d = bytes(&l["d"]);
    let mut b1 = Vec::new();
    let mut b2 = Vec::new();
    let (r1, r2) = match jstr(&l["t"]) {
        "data" => (encode::data_to_write(&d, &mut b1), PacketLineRef::Data(&d).write_to(&mut b2)),
        "text" => (encode::text_to_write(&d, &mut b1), gix_packetline::TextRef(&d).write_to(&mut b2)),
        "err" => (encode::error_to_write(&d, &mut b1), gix_packetline::ErrorRef(&d).write_to(&mut b2)),
        "band" => {
            let (ch, b) = match jint(&l["ch"]) {
                1 => (Channel::Data, gix_packetline::BandRef::Data(&d)),
                2 => (Channel::Progress, gix_packetline::BandRef::Progress(&d)),
                3 => (Channel::Error, gix_packetline::BandRef::Error(&d)),
                other => panic!("band {other}"),
            };
            (encode::band_to_write(ch, &d, &mut b1), b.write_to(&mut b2))
        }
        "flush" => (encode::flush_to_write(&mut b1), PacketLineRef::Flush.write_to(&mut b2)),
        "delim" => (encode::delim_to_write(&mut b1), PacketLineRef::Delimiter.write_to(&mut b2)),
        "rend" => (encode::response_end_to_write(&mut b1), PacketLineRef::ResponseEnd.write_to(&mut b2)),
        other => panic!("line kind {other}"),
    };
    let class = |r: &io::Result<usize>| match r {
        Ok(_) => "".to_string(),
        Err(e) => match e.get_ref().and_then(|i| i.downcast_ref::<encode::Error>()) {
            Some(encode::Error::DataLengthLimitExceeded { .. }) => "toolong".into(),
            Some(encode::Error::DataIsEmpty) => "empty".into(),
            None => format!("other:{e}"),
        },
    };
    json!({"ok": r1.is_ok(), "err": class(&r1), "bytes": jbytes(&b1), "n": r1.as_ref().ok().copied().unwrap_or(0),
           "ok2": r2.is_ok(), "err2": class(&r2), "bytes2": jbytes(&b2)})
}

fn wr(case: &Json) -> Json {
    use std::io::Write;
    let d = bytes(&case["d"]);
    let mut w = gix_packetline::Writer::new(Vec::<u8>::new());
    if jbool(&case["binary"]) {
        w.enable_binary_mode();
    } else {
        w.enable_text_mode();
    }
    let r = w.write(&d);
    let ok = r.is_ok();
    let written = r.unwrap_or(0);
    json!({"ok": ok, "written": written, "bytes": jbytes(&w.into_inner())})
}

fn dec(case: &Json) -> Json {
    let input = bytes(&case["input"]);
    let all = decode::all_at_once(&input);
    let all_ok = all.is_ok();
    match decode::streaming(&input) {
        Ok(decode::Stream::Complete { line, bytes_consumed }) => {
            let (k, d) = kind_of(&line);
            json!({"s": "complete", "k": k, "d": jbytes(&d), "used": bytes_consumed, "need": 0, "err": "", "all_ok": all_ok})
        }
        Ok(decode::Stream::Incomplete { bytes_needed }) => {
            json!({"s": "incomplete", "k": "none", "d": [], "used": 0, "need": bytes_needed, "err": "", "all_ok": all_ok})
        }
        Err(e) => json!({"s": "err", "k": "none", "d": [], "used": 0, "need": 0, "err": dclass(&e), "all_ok": all_ok}),
    }
}

fn main() {
    run(|case| match jstr(&case["op"]) {
        "enc" => enc(case),
        "wr" => wr(case),
        "dec" => dec(case),
        "run" => Json::Array(
            case["chunks"]
                .as_array()
                .expect("chunks")
                .iter()
                .map(|c| {
                    let sizes: Vec<usize> = c.as_array().expect("sizes").iter().map(|x| jint(x) as usize).collect();
                    match guarded(|| run_once(case, sizes)) {
                        Ok(v) => v,
                        Err(msg) => json!({"panic": msg}),
                    }
                })
                .collect(),
        ),
        other => panic!("unknown op {other}"),
    });
}
