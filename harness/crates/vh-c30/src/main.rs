//! C30 executor: the reference advertisement as understood by gitoxide.
//!
//! case: {"op": "live", "path": "<server repository>", "version": 0|1|2, "prefixes": [[bytes]..]}
//!         gix_transport's file transport spawns `git-upload-pack <path>`; gix_protocol::handshake and,
//!         for protocol 2, gix_protocol::ls_refs (arguments as chosen by gitoxide + the ref-prefix lines).
//!       {"op": "replay", "wire": [bytes], "version": .., "prefixes": ..}
//!         the same over an in-memory connection that replays bytes captured from git upload-pack.
//! got:  {"ok": bool, "err": str, "protocol": 0|1|2, "refs": [{"k","name","target","tag","object"}], "ls_args": [[bytes]]}
use bstr::{BString, ByteSlice};
use gix_protocol::handshake::Ref;
use gix_transport::client::{git, Transport};
use gix_transport::Protocol;
use vhlib::*;

fn jref(r: &Ref) -> Json {
    let hex = |id: &gix_hash::ObjectId| jbytes(id.to_hex().to_string().as_bytes());
    let none = || Json::Array(vec![]);
    match r {
        Ref::Direct { full_ref_name, object } => {
            json!({"k": "Direct", "name": jbytes(full_ref_name), "target": none(), "tag": none(), "object": hex(object)})
        }
        Ref::Peeled { full_ref_name, tag, object } => {
            json!({"k": "Peeled", "name": jbytes(full_ref_name), "target": none(), "tag": hex(tag), "object": hex(object)})
        }
        Ref::Symbolic { full_ref_name, target, tag, object } => {
            json!({"k": "Symbolic", "name": jbytes(full_ref_name), "target": jbytes(target),
                   "tag": tag.as_ref().map(hex).unwrap_or_else(none), "object": hex(object)})
        }
        Ref::Unborn { full_ref_name, target } => {
            json!({"k": "Unborn", "name": jbytes(full_ref_name), "target": jbytes(target), "tag": none(), "object": none()})
        }
    }
}

fn version_of(v: &Json) -> Protocol {
    match jint(v) {
        0 => Protocol::V0,
        1 => Protocol::V1,
        2 => Protocol::V2,
        other => panic!("protocol {other}"),
    }
}

fn converse(mut transport: impl Transport, prefixes: &[Vec<u8>]) -> Json {
    let mut progress = gix_features::progress::Discard;
    let outcome = match gix_protocol::fetch::handshake(
        &mut transport,
        |_| -> gix_protocol::credentials::protocol::Result { panic!("no authentication on local transports") },
        Vec::new(),
        &mut progress,
    ) {
        Ok(o) => o,
        Err(e) => return json!({"ok": false, "err": format!("handshake: {e}"), "protocol": -1, "refs": [], "ls_args": []}),
    };
    let protocol = outcome.server_protocol_version as usize;
    let mut sent_args: Vec<BString> = Vec::new();
    let refs = match outcome.refs {
        Some(refs) => refs,
        None => {
            let res = gix_protocol::ls_refs(
                &mut transport,
                &outcome.capabilities,
                |_caps, args, features| {
                    features.push(("agent", Some(std::borrow::Cow::Borrowed("git/vh-c30"))));
                    for p in prefixes {
                        let mut a = BString::from("ref-prefix ");
                        a.extend_from_slice(p);
                        args.push(a);
                    }
                    sent_args = args.clone();
                    Ok(gix_protocol::ls_refs::Action::Continue)
                },
                &mut progress,
                false,
            );
            match res {
                Ok(r) => r,
                Err(e) => {
                    return json!({"ok": false, "err": format!("ls_refs: {e}"), "protocol": protocol, "refs": [],
                                  "ls_args": sent_args.iter().map(|a| jbytes(a)).collect::<Vec<_>>()})
                }
            }
        }
    };
    gix_protocol::indicate_end_of_interaction(&mut transport, false).ok();
    json!({"ok": true, "err": "", "protocol": protocol, "refs": refs.iter().map(jref).collect::<Vec<_>>(),
           "ls_args": sent_args.iter().map(|a| jbytes(a)).collect::<Vec<_>>()})
}

fn main() {
    run(|case| {
        let version = version_of(&case["version"]);
        let prefixes = bytes_list(&case["prefixes"]);
        match jstr(&case["op"]) {
            "live" => {
                let path = jstr(&case["path"]);
                let transport = gix_transport::client::file::connect(path.as_bytes().as_bstr().to_owned(), version, false)
                    .expect("infallible");
                converse(transport, &prefixes)
            }
            "replay" => {
                let wire = bytes(&case["wire"]);
                let conn = git::Connection::new(
                    std::io::Cursor::new(wire),
                    Vec::<u8>::new(),
                    version,
                    "/replayed",
                    None::<(&str, _)>,
                    git::ConnectMode::Process,
                    false,
                );
                converse(conn, &prefixes)
            }
            other => panic!("unknown op {other}"),
        }
    });
}
