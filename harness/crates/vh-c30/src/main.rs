//! C30 executor: the reference advertisement as understood by gitoxide.
//!
//! case: {"op": "live", "path": "<server repository>", "version": 0|1|2, "prefix_sets": [[[bytes]..]..]}
//!         gix_transport's file transport spawns `git-upload-pack <path>`; gix_protocol::handshake and,
//!         for protocol 2, gix_protocol::ls_refs (arguments as chosen by gitoxide + the ref-prefix lines).
//!       {"op": "replay", "wire": [bytes], "version": .., "prefix_sets": ..}
//!         the same over an in-memory connection that replays bytes captured from git upload-pack.
//!         for protocol 2 one ls-refs command per prefix set is sent on the same connection.
//! got:  {"ok": bool, "err": str, "protocol": 0|1|2, "convs": [{"ok","err","refs": [{"k","name","target","tag","object"}], "ls_args": [[bytes]]}]}
use bstr::{BString, ByteSlice};
use gix_protocol::handshake::Ref;
use gix_transport::client::{git, Transport};
use gix_transport::Protocol;
use vhlib::*;

fn jref(r: &Ref) -> Json {
    let hex = |id: &gix_hash::ObjectId| jbytes(id.to_hex().to_string().as_bytes());
    let none = || Json::Array(vec![]);
    match r {
        Ref::Direct { full_ref_name, object } => {
            json!({"k": "Direct", "name": jbytes(full_ref_name), "target": none(), "tag": none(), "object": hex(object)})
        }
        Ref::Peeled { full_ref_name, tag, object } => {
            json!({"k": "Peeled", "name": jbytes(full_ref_name), "target": none(), "tag": hex(tag), "object": hex(object)})
        }
        Ref::Symbolic { full_ref_name, target, tag, object } => {
            json!({"k": "Symbolic", "name": jbytes(full_ref_name), "target": jbytes(target),
                   "tag": tag.as_ref().map(hex).unwrap_or_else(none), "object": hex(object)})
        }
        Ref::Unborn { full_ref_name, target } => {
            json!({"k": "Unborn", "name": jbytes(full_ref_name), "target": jbytes(target), "tag": none(), "object": none()})
        }
    }
}

fn version_of(v: &Json) -> Protocol {
    match jint(v) {
        0 => Protocol::V0,
        1 => Protocol::V1,
        2 => Protocol::V2,
        other => panic!("protocol {other}"),
    }
}

fn converse(mut transport: impl Transport, prefix_sets: &[Vec<Vec<u8>>]) -> Json {
    let mut progress = gix_features::progress::Discard;
    let outcome = match gix_protocol::fetch::handshake(
        &mut transport,
        |_| -> gix_protocol::credentials::protocol::Result { panic!("no authentication on local transports") },
        Vec::new(),
        &mut progress,
    ) {
        Ok(o) => o,
        Err(e) => return json!({"ok": false, "err": format!("handshake: {e}"), "protocol": -1, "convs": []}),
    };
    let protocol = outcome.server_protocol_version as usize;
    let mut convs = Vec::new();
    match outcome.refs {
        Some(refs) => convs.push(json!({"ok": true, "err": "", "refs": refs.iter().map(jref).collect::<Vec<_>>(), "ls_args": []})),
        None => {
            // one `ls-refs` command per prefix set on the same (stateful) connection
            for prefixes in prefix_sets {
                let mut sent_args: Vec<BString> = Vec::new();
                let res = gix_protocol::ls_refs(
                    &mut transport,
                    &outcome.capabilities,
                    |_caps, args, features| {
                        features.push(("agent", Some(std::borrow::Cow::Borrowed("git/vh-c30"))));
                        for p in prefixes {
                            let mut a = BString::from("ref-prefix ");
                            a.extend_from_slice(p);
                            args.push(a);
                        }
                        sent_args = args.clone();
                        Ok(gix_protocol::ls_refs::Action::Continue)
                    },
                    &mut progress,
                    false,
                );
                let ls_args = sent_args.iter().map(|a| jbytes(a)).collect::<Vec<_>>();
                match res {
                    Ok(r) => convs.push(json!({"ok": true, "err": "", "refs": r.iter().map(jref).collect::<Vec<_>>(), "ls_args": ls_args})),
                    Err(e) => {
                        convs.push(json!({"ok": false, "err": format!("ls_refs: {e}"), "refs": [], "ls_args": ls_args}));
                        break;
                    }
                }
            }
        }
    }
    gix_protocol::indicate_end_of_interaction(&mut transport, false).ok();
    json!({"ok": true, "err": "", "protocol": protocol, "convs": convs})
}

fn prefix_sets_of(case: &Json) -> Vec<Vec<Vec<u8>>> {
    case["prefix_sets"].as_array().map(|a| a.iter().map(bytes_list).collect()).unwrap_or_default()
}

fn main() {
    run(|case| {
        let version = version_of(&case["version"]);
        let prefixes = prefix_sets_of(case);
        match jstr(&case["op"]) {
            "live" => {
                let path = jstr(&case["path"]);
                let transport = gix_transport::client::file::connect(path.as_bytes().as_bstr().to_owned(), version, false)
                    .expect("infallible");
                converse(transport, &prefixes)
            }
            "replay" => {
                let wire = bytes(&case["wire"]);
                let conn = git::Connection::new(
                    std::io::Cursor::new(wire),
                    Vec::<u8>::new(),
                    version,
                    "/replayed",
                    None::<(&str, _)>,
                    git::ConnectMode::Process,
                    false,
                );
                converse(conn, &prefixes)
            }
            other => panic!("unknown op {other}"),
        }
    });
}
