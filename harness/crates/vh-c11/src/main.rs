//! C11 executor: the loose object store.
//!
//! op "write": {"dir": objects dir, "kind": "blob|tree|commit|tag", "body_path": file, "mode": "buf|stream|typed"}
//!             got: {"id": hex} | {"error": text}
//!             typed: the body is parsed with gix_object::ObjectRef::from_bytes, converted to an owned
//!             Object and written through Write::write (hash-while-serialising); {"unparsable": text} if it
//!             cannot be parsed (not a verdict: the driver only uses objects git made).
//! op "read":  {"dir": objects dir, "id": hex, "place": {"from": file, "len": k} | null, "out": file}
//!             when "place" is given the first k bytes of the file are first installed as the loose object `id`.
//!             got: {"contains": bool,
//!                   "find":   {"kind","size","data": [bytes] (<= 4096) | "data_path": out} | "none" | {"error": text},
//!                   "header": {"kind","size"} | "none" | {"error": text},
//!                   "handle": same as find, through gix_odb::at(dir) (only when "handle": true)}
use std::io::Read;
use std::path::{Path, PathBuf};
use vhlib::*;

use gix_odb::Write as _;

fn kind_of(s: &str) -> gix_object::Kind {
    gix_object::Kind::from_bytes(s.as_bytes()).expect("kind")
}

fn write_case(case: &Json) -> Json {
    let dir = PathBuf::from(jstr(&case["dir"]));
    let kind = kind_of(jstr(&case["kind"]));
    let body = std::fs::read(jstr(&case["body_path"])).expect("body");
    let store = gix_odb::loose::Store::at(&dir, gix_hash::Kind::Sha1);
    let res = match jstr(&case["mode"]) {
        "buf" => store.write_buf(kind, &body),
        "stream" => {
            // a reader that hands out the data in uneven pieces
            struct Chunky<'a>(&'a [u8], usize);
            impl Read for Chunky<'_> {
                fn read(&mut self, buf: &mut [u8]) -> std::io::Result<usize> {
                    self.1 = self.1 % 7 + 1;
                    let n = buf.len().min(self.0.len()).min(self.1 * 1021);
                    buf[..n].copy_from_slice(&self.0[..n]);
                    self.0 = &self.0[n..];
                    Ok(n)
                }
            }
            store.write_stream(kind, body.len() as u64, &mut Chunky(&body, 0))
        }
        "typed" => match gix_object::ObjectRef::from_bytes(kind, &body) {
            Ok(obj) => {
                let owned: gix_object::Object = obj.into();
                store.write(&owned)
            }
            Err(e) => return json!({"unparsable": e.to_string()}),
        },
        other => panic!("mode {other}"),
    };
    match res {
        Ok(id) => json!({"id": id.to_string()}),
        Err(e) => json!({"error": e.to_string()}),
    }
}

fn data_json(kind: gix_object::Kind, data: &[u8], out: &Path) -> Json {
    if data.len() <= 4096 {
        json!({"kind": kind.to_string(), "size": data.len(), "data": jbytes(data)})
    } else {
        std::fs::write(out, data).expect("write out");
        json!({"kind": kind.to_string(), "size": data.len(), "data_path": out.display().to_string()})
    }
}

fn read_case(case: &Json) -> Json {
    let dir = PathBuf::from(jstr(&case["dir"]));
    let id = gix_hash::ObjectId::from_hex(jstr(&case["id"]).as_bytes()).expect("id");
    let out = PathBuf::from(case["out"].as_str().unwrap_or("/nonexistent"));
    let store = gix_odb::loose::Store::at(&dir, gix_hash::Kind::Sha1);
    if let Some(place) = case.get("place").filter(|p| !p.is_null()) {
        let src = std::fs::read(jstr(&place["from"])).expect("source file");
        let k = jint(&place["len"]) as usize;
        let path = store.object_path(&id);
        std::fs::create_dir_all(path.parent().unwrap()).expect("mkdir");
        let _ = std::fs::remove_file(&path);
        std::fs::write(&path, &src[..k]).expect("install");
    }
    let contains = store.contains(&id);
    let mut buf = Vec::new();
    let find = match store.try_find(&id, &mut buf) {
        Ok(Some(d)) => data_json(d.kind, d.data, &out),
        Ok(None) => json!("none"),
        Err(e) => json!({"error": e.to_string()}),
    };
    let header = match store.try_header(&id) {
        Ok(Some((size, kind))) => json!({"kind": kind.to_string(), "size": size}),
        Ok(None) => json!("none"),
        Err(e) => json!({"error": e.to_string()}),
    };
    let mut res = json!({"contains": contains, "find": find, "header": header});
    if case["handle"].as_bool().unwrap_or(false) {
        let mut buf = Vec::new();
        res["handle"] = match gix_odb::at(&dir) {
            Ok(h) => match gix_object::Find::try_find(&h, &id, &mut buf) {
                Ok(Some(d)) => data_json(d.kind, d.data, &out.with_extension("h")),
                Ok(None) => json!("none"),
                Err(e) => json!({"error": e.to_string()}),
            },
            Err(e) => json!({"error": format!("open: {e}")}),
        };
    }
    res
}

fn main() {
    run(|case| match jstr(&case["op"]) {
        "write" => write_case(case),
        "read" => read_case(case),
        other => panic!("unknown op {other}"),
    });
}
