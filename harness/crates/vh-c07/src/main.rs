//! C07 executor: pack entry headers and delta application.
//! Numbers are JSON arrays of binary digits, least significant first (no trailing zeros).
//!  {"op":"enc", type, size, dist, base, tail}  -> {bytes, written, hsize, mem, read}
//!  {"op":"dec", bytes}                         -> {mem, read}
//!  {"op":"pack", pack, offsets:[..], ids:{hex: offset}} -> {entries:[{offset, hdr, ok, kind, data, err}]}
use gix_pack::data::{self, entry::Header};
use std::collections::HashMap;
use vhlib::*;

fn bits_to_u64(v: &Json) -> u64 {
    let mut n: u64 = 0;
    for (i, b) in v.as_array().expect("bits").iter().enumerate() {
        if b.as_u64().expect("bit") == 1 {
            assert!(i < 64, "number does not fit u64");
            n |= 1u64 << i;
        }
    }
    n
}

fn u64_to_bits(mut n: u64) -> Json {
    let mut out = Vec::new();
    while n != 0 {
        out.push(Json::from(n & 1));
        n >>= 1;
    }
    Json::Array(out)
}

fn describe(e: &data::Entry, pack_offset: u64) -> Json {
    let (dist, base) = match e.header {
        Header::OfsDelta { base_distance } => (u64_to_bits(base_distance), jbytes(b"")),
        Header::RefDelta { base_id } => (u64_to_bits(0), jbytes(base_id.as_slice())),
        _ => (u64_to_bits(0), jbytes(b"")),
    };
    json!({"ok": true, "type": e.header.as_type_id(), "size": u64_to_bits(e.decompressed_size), "dist": dist, "base": base,
           "consumed": e.data_offset - pack_offset, "hsize": e.header_size(), "err": ""})
}

fn failed(msg: String) -> Json {
    json!({"ok": false, "type": 0, "size": [], "dist": [], "base": [], "consumed": 0, "hsize": 0, "err": msg})
}

/// a reader that hands out at most `k` bytes per call, as sockets, pipes and small buffered readers do
struct Chunked<'a> {
    data: &'a [u8],
    pos: usize,
    k: usize,
}
impl std::io::Read for Chunked<'_> {
    fn read(&mut self, buf: &mut [u8]) -> std::io::Result<usize> {
        let n = self.k.min(buf.len()).min(self.data.len() - self.pos);
        buf[..n].copy_from_slice(&self.data[self.pos..self.pos + n]);
        self.pos += n;
        Ok(n)
    }
}

/// `Entry::from_read` through readers with short reads; only the results that differ from the whole-buffer reader are kept
fn decode_chunked(d: &[u8], whole: &Json) -> Vec<Json> {
    const P: u64 = 1000;
    let mut out = Vec::new();
    for k in [1usize, 2, 3, 7, 19, 21] {
        let j = match guarded(|| {
            let mut r = Chunked { data: d, pos: 0, k };
            data::Entry::from_read(&mut r, P, 20).map(|e| (e, r.pos as u64))
        }) {
            Ok(Ok((e, pos))) => {
                let mut j = describe(&e, P);
                j["pos"] = Json::from(pos);
                j
            }
            Ok(Err(e)) => failed(e.to_string()),
            Err(p) => failed(format!("panic: {p}")),
        };
        // error texts may differ, the outcome may not
        let same = if !j["ok"].as_bool().unwrap_or(false) && !whole["ok"].as_bool().unwrap_or(false) { true } else { &j == whole };
        if !same {
            let mut j = j;
            j["k"] = Json::from(k as u64);
            out.push(j);
        }
    }
    out
}

fn decode_both(d: &[u8]) -> (Json, Json) {
    const P: u64 = 1000;
    let mem = match guarded(|| data::Entry::from_bytes(d, P, 20)) {
        Ok(Ok(e)) => describe(&e, P),
        Ok(Err(e)) => failed(e.to_string()),
        Err(p) => failed(format!("panic: {p}")),
    };
    let read = match guarded(|| {
        let mut cur = std::io::Cursor::new(d);
        data::Entry::from_read(&mut cur, P, 20).map(|e| (e, cur.position()))
    }) {
        Ok(Ok((e, pos))) => {
            let mut j = describe(&e, P);
            j["pos"] = Json::from(pos);
            j
        }
        Ok(Err(e)) => failed(e.to_string()),
        Err(p) => failed(format!("panic: {p}")),
    };
    let mut read = read;
    let differing = decode_chunked(d, &read);
    read["chunked_differs"] = Json::Array(differing);
    (mem, read)
}

fn main() {
    run(|case| match jstr(&case["op"]) {
        "enc" => {
            let size = bits_to_u64(&case["size"]);
            let header = match jint(&case["type"]) {
                1 => Header::Commit,
                2 => Header::Tree,
                3 => Header::Blob,
                4 => Header::Tag,
                6 => Header::OfsDelta { base_distance: bits_to_u64(&case["dist"]) },
                7 => Header::RefDelta { base_id: gix_hash::ObjectId::from_bytes_or_panic(&bytes(&case["base"])) },
                other => panic!("type {other}"),
            };
            let mut out = Vec::new();
            let written = header.write_to(size, &mut out).expect("write to vec");
            let hsize = header.size(size);
            let mut with_tail = out.clone();
            with_tail.extend_from_slice(&bytes(&case["tail"]));
            let (mem, read) = decode_both(&with_tail);
            json!({"bytes": jbytes(&out), "written": written, "hsize": hsize, "mem": mem, "read": read})
        }
        "dec" => {
            let (mem, read) = decode_both(&bytes(&case["bytes"]));
            json!({"mem": mem, "read": read})
        }
        "pack" => {
            let file = data::File::at(jstr(&case["pack"]), gix_hash::Kind::Sha1).expect("open pack");
            let mut ids: HashMap<Vec<u8>, u64> = HashMap::new();
            for (hex, ofs) in case["ids"].as_object().expect("ids") {
                ids.insert(gix_hash::ObjectId::from_hex(hex.as_bytes()).expect("hex").as_slice().to_vec(), ofs.as_u64().expect("ofs"));
            }
            let mut entries = Vec::new();
            for ofs in case["offsets"].as_array().expect("offsets") {
                let ofs = ofs.as_u64().expect("offset");
                let res = guarded(|| {
                    let entry = file.entry(ofs).map_err(|e| e.to_string())?;
                    let hdr = describe(&entry, ofs);
                    let mut out = Vec::new();
                    let mut inflate = gix_features::zlib::Inflate::default();
                    let resolve = |id: &gix_hash::oid, _out: &mut Vec<u8>| {
                        ids.get(id.as_bytes())
                            .and_then(|o| file.entry(*o).ok())
                            .map(data::decode::entry::ResolvedBase::InPack)
                    };
                    let outcome = file
                        .decode_entry(entry, &mut out, &mut inflate, &resolve, &mut gix_pack::cache::Never)
                        .map_err(|e| e.to_string())?;
                    out.truncate(outcome.object_size as usize);
                    Ok::<_, String>((hdr, outcome, out))
                });
                entries.push(match res {
                    Ok(Ok((hdr, outcome, out))) => json!({"offset": ofs, "hdr": hdr, "ok": true, "kind": outcome.kind.to_string(),
                        "num_deltas": outcome.num_deltas, "data": jbytes(&out), "err": ""}),
                    Ok(Err(e)) => json!({"offset": ofs, "hdr": failed(String::new()), "ok": false, "kind": "", "num_deltas": 0, "data": [], "err": e}),
                    Err(p) => json!({"offset": ofs, "hdr": failed(String::new()), "ok": false, "kind": "", "num_deltas": 0, "data": [], "err": format!("panic: {p}")}),
                });
            }
            json!({"entries": entries})
        }
        other => panic!("unknown op {other}"),
    });
}
