//! C08 executor: objects read from a pack through every cache implementation.
//! case: {"idx": path of the .idx, "ids": [hex of object 1..n], "requests": [1-based object numbers], "caches": [names]}
//! got: per cache {"cache": name, "results": [{"kind": "blob|tree|commit|tag", "sha": hex of the returned bytes}] | "panic": msg}
use vhlib::*;

fn sha_hex(data: &[u8], kind: gix_object::Kind) -> String {
    gix_object::compute_hash(gix_hash::Kind::Sha1, kind, data).to_hex().to_string()
}

fn cache_by_name(name: &str) -> Box<dyn gix_pack::cache::DecodeEntry> {
    use gix_pack::cache;
    match name {
        "never" => Box::new(cache::Never),
        "static2-tiny" => Box::new(cache::lru::StaticLinkedList::<2>::new(4)),
        "static2-small" => Box::new(cache::lru::StaticLinkedList::<2>::new(600)),
        "static4-exact" => Box::new(cache::lru::StaticLinkedList::<4>::new(4096)),
        "static64-default" => Box::new(cache::lru::StaticLinkedList::<64>::default()),
        "static64-unlimited" => Box::new(cache::lru::StaticLinkedList::<64>::new(0)),
        "memcap-tiny" => Box::new(cache::lru::MemoryCappedHashmap::new(16)),
        "memcap-small" => Box::new(cache::lru::MemoryCappedHashmap::new(5000)),
        "memcap-ample" => Box::new(cache::lru::MemoryCappedHashmap::new(10_000_000)),
        other => panic!("cache {other}"),
    }
}

fn main() {
    run(|case| {
        let bundle = gix_pack::Bundle::at(jstr(&case["idx"]), gix_hash::Kind::Sha1).expect("bundle");
        let ids: Vec<gix_hash::ObjectId> =
            case["ids"].as_array().unwrap().iter().map(|h| gix_hash::ObjectId::from_hex(jstr(h).as_bytes()).unwrap()).collect();
        let mut out = Vec::new();
        for cname in case["caches"].as_array().unwrap() {
            let cname = jstr(cname);
            let requests: Vec<usize> = case["requests"].as_array().unwrap().iter().map(|r| r.as_u64().unwrap() as usize).collect();
            let res = guarded(|| {
                let mut cache = cache_by_name(cname);
                // an object cache in front of the pack cache, as gix_odb::Cache would use it
                let mut ocache = gix_pack::cache::object::MemoryCappedHashmap::new(if cname.ends_with("tiny") { 64 } else { 100_000 });
                let use_object_cache = case["object_cache"].as_bool().unwrap_or(false);
                let mut inflate = gix_features::zlib::Inflate::default();
                let mut results = Vec::new();
                let mut buf = Vec::new();
                for r in &requests {
                    let id = ids[*r - 1];
                    if use_object_cache {
                        use gix_pack::cache::Object;
                        if let Some(kind) = ocache.get(&id, &mut buf) {
                            results.push(json!({"kind": kind.to_string(), "sha": sha_hex(&buf, kind), "from": "object-cache"}));
                            continue;
                        }
                    }
                    match bundle.find(&id, &mut buf, &mut inflate, cache.as_mut()) {
                        Ok(Some((data, _loc))) => {
                            let kind = data.kind;
                            let sha = sha_hex(data.data, kind);
                            if use_object_cache {
                                use gix_pack::cache::Object;
                                let d = data.data.to_vec();
                                ocache.put(id, kind, &d);
                            }
                            results.push(json!({"kind": kind.to_string(), "sha": sha, "from": "pack"}));
                        }
                        Ok(None) => results.push(json!({"kind": "none", "sha": ""})),
                        Err(e) => results.push(json!({"kind": "error", "sha": e.to_string()})),
                    }
                }
                results
            });
            match res {
                Ok(results) => out.push(json!({"cache": cname, "results": results})),
                Err(msg) => out.push(json!({"cache": cname, "panic": msg})),
            }
        }
        Json::Array(out)
    });
}
