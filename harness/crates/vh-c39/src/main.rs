//! C39 executor: pathspec parsing and path selection.
//! case: {"specs": [[bytes]..], "paths": [[bytes]..], "attrs": [bytes of a top-level .gitattributes]}
//! got:  {"parse": [{"ok": bool, "err": str}..],
//!        "res": "skipped" | [{"matched": bool, "excluded": bool, "kind": str, "seq": int, "dirs_can_match": bool}..]}
//!   matched/excluded: Search::pattern_matching_relative_path(path, Some(false), attribute callback)
//!   dirs_can_match:   every proper leading directory d of path has can_match_relative_path(d, Some(true))
use bstr::ByteSlice;
use std::path::Path;
use vhlib::*;

fn main() {
    run(|case| {
        let specs = bytes_list(&case["specs"]);
        let paths = bytes_list(&case["paths"]);
        let attrs = bytes(&case["attrs"]);
        let mut parse = Vec::new();
        let mut patterns = Vec::new();
        for s in &specs {
            match gix_pathspec::parse(s, Default::default()) {
                Ok(p) => {
                    parse.push(json!({"ok": true, "err": ""}));
                    patterns.push(p);
                }
                Err(e) => parse.push(json!({"ok": false, "err": format!("{e:?}").split(['(', ' ', '{']).next().unwrap_or("").to_string()})),
            }
        }
        let mut out = json!({"parse": parse, "res": "skipped"});
        if patterns.len() != specs.len() {
            return out;
        }
        let mut collection = gix_attributes::search::MetadataCollection::default();
        let mut attr_search = gix_attributes::Search::default();
        attr_search.add_patterns_buffer(&attrs, ".gitattributes".into(), Some(Path::new("")), &mut collection, true);
        let mut search = match gix_pathspec::Search::from_specs(patterns, None, Path::new("")) {
            Ok(s) => s,
            Err(e) => {
                out["normalize_err"] = Json::from(e.to_string());
                return out;
            }
        };
        let mut res = Vec::new();
        for p in &paths {
            let m = search.pattern_matching_relative_path(p.as_bstr(), Some(false), &mut |rela_path, case, is_dir, o| {
                o.initialize(&collection);
                attr_search.pattern_matching_relative_path(rela_path, case, Some(is_dir), o)
            });
            let (matched, excluded, kind, seq) = match &m {
                Some(m) => (true, m.is_excluded(), format!("{:?}", m.kind), m.sequence_number as i64),
                None => (false, false, String::new(), -1),
            };
            let mut dirs_ok = true;
            for (i, b) in p.iter().enumerate() {
                if *b == b'/' && i > 0 {
                    dirs_ok &= search.can_match_relative_path(p[..i].as_bstr(), Some(true));
                }
            }
            res.push(json!({"matched": matched, "excluded": excluded, "kind": kind, "seq": seq, "dirs_can_match": dirs_ok}));
        }
        out["res"] = Json::Array(res);
        out
    });
}
