//! C14 executor: reading commit-graphs.
//!
//! case: {"path": objects/info directory (or a graph file / commit-graphs directory), "ids": [hex..]}
//! got:  {"open": "ok" | error text,
//!        "num": commits in the graph, "files": number of files is not exposed; "iter": number of ids iterated,
//!        "commits": [ {"found": true, "id", "tree", "time": decimal string, "gen", "parents": [hex..]} | {"found": false}
//!                     | {"found": true, .., "parent_error": text} ],
//!        "positions": [graph position | -1],
//!        "by_pos_ok": bool  (id_at(pos), commit_at(pos).id() and lookup(id) agree for every found id),
//!        "iter_ids": [hex..] (Graph::iter_ids, in graph position order),
//!        "verify": "ok" | error text (Graph::verify_integrity)}
use vhlib::*;

fn main() {
    run(|case| {
        let path = std::path::PathBuf::from(jstr(&case["path"]));
        let graph = match gix_commitgraph::at(&path) {
            Ok(g) => g,
            Err(e) => return json!({"open": e.to_string()}),
        };
        let mut commits = Vec::new();
        let mut positions = Vec::new();
        let mut by_pos_ok = true;
        for idv in case["ids"].as_array().expect("ids") {
            let id = gix_hash::ObjectId::from_hex(jstr(idv).as_bytes()).expect("hex");
            match graph.commit_by_id(id) {
                None => {
                    commits.push(json!({"found": false}));
                    positions.push(-1i64);
                    if graph.lookup(id).is_some() {
                        by_pos_ok = false;
                    }
                }
                Some(c) => {
                    let pos = graph.lookup(id);
                    positions.push(pos.map(|p| i64::from(p.0)).unwrap_or(-1));
                    if let Some(p) = pos {
                        if graph.id_at(p) != id.as_ref() || graph.commit_at(p).id() != id.as_ref() {
                            by_pos_ok = false;
                        }
                    } else {
                        by_pos_ok = false;
                    }
                    let mut parents = Vec::new();
                    let mut perr = None;
                    for p in c.iter_parents() {
                        match p {
                            Ok(pos) => parents.push(graph.id_at(pos).to_string()),
                            Err(e) => {
                                perr = Some(e.to_string());
                                break;
                            }
                        }
                    }
                    let mut o = json!({"found": true, "id": c.id().to_string(), "tree": c.root_tree_id().to_string(),
                                       "time": c.committer_timestamp().to_string(), "gen": c.generation(), "parents": parents});
                    if let Some(e) = perr {
                        o["parent_error"] = Json::from(e);
                    }
                    commits.push(o);
                }
            }
        }
        let iter_ids: Vec<String> = graph.iter_ids().map(|i| i.to_string()).collect();
        let iter_commit_ids: Vec<String> = graph.iter_commits().map(|c| c.id().to_string()).collect();
        let verify = match graph.verify_integrity(|_| Ok::<_, std::convert::Infallible>(())) {
            Ok(_) => "ok".to_string(),
            Err(e) => e.to_string(),
        };
        json!({"open": "ok", "num": graph.num_commits(), "commits": commits, "positions": positions, "by_pos_ok": by_pos_ok,
               "iter_ids": iter_ids, "iter_agree": iter_ids == iter_commit_ids, "verify": verify})
    });
}
