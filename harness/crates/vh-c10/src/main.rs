//! C10 executor: storing a received pack with gix_pack::Bundle::write_to_directory.
//!
//! case: {"op": "write", "pack": "<file with the pack stream>", "dir": "<existing directory>", "threads": n (0 = default),
//!        "lookup": "none" | "mem" | "<objects directory of the receiving repository>",
//!        "mem": [{"kind": "blob"|.., "data": [bytes]}..]   (objects the in-memory lookup knows),
//!        "read": bool   (decode every object of the new bundle afterwards)}
//! got:  {"ok", "err", "num_objects", "made": [file names], "index_hash", "data_hash",
//!        "objects": [{"id", "rehash", "kind", "size"} | {"id", "err"}]}
use std::collections::HashMap;
use std::sync::atomic::AtomicBool;
use vhlib::*;

struct Mem(HashMap<gix_hash::ObjectId, (gix_object::Kind, Vec<u8>)>);

impl gix_object::Find for Mem {
    fn try_find<'a>(
        &self,
        id: &gix_hash::oid,
        buffer: &'a mut Vec<u8>,
    ) -> Result<Option<gix_object::Data<'a>>, gix_object::find::Error> {
        Ok(self.0.get(id).map(|(kind, data)| {
            buffer.clear();
            buffer.extend_from_slice(data);
            gix_object::Data { kind: *kind, data: buffer.as_slice() }
        }))
    }
}

fn kind_of(s: &str) -> gix_object::Kind {
    match s {
        "blob" => gix_object::Kind::Blob,
        "tree" => gix_object::Kind::Tree,
        "commit" => gix_object::Kind::Commit,
        "tag" => gix_object::Kind::Tag,
        other => panic!("kind {other}"),
    }
}

fn file_name(p: &Option<std::path::PathBuf>) -> Json {
    p.as_ref()
        .and_then(|p| p.file_name())
        .map(|n| Json::from(n.to_string_lossy().into_owned()))
        .unwrap_or(Json::Null)
}

fn write_case(case: &Json) -> Json {
    let pack_path = jstr(&case["pack"]);
    let dir = std::path::PathBuf::from(jstr(&case["dir"]));
    let threads = jint(&case["threads"]);
    let options = gix_pack::bundle::write::Options {
        thread_limit: if threads > 0 { Some(threads as usize) } else { None },
        iteration_mode: gix_pack::data::input::Mode::Verify,
        index_version: Default::default(),
        object_hash: gix_hash::Kind::Sha1,
    };
    let mut input = std::io::BufReader::new(std::fs::File::open(pack_path).expect("open pack stream"));
    let mut progress = gix_features::progress::Discard;
    let interrupt = AtomicBool::new(false);
    let lookup = jstr(&case["lookup"]);
    let res = match lookup {
        "none" => gix_pack::Bundle::write_to_directory(&mut input, Some(&dir), &mut progress, &interrupt, None::<Mem>, options),
        "mem" => {
            let mut m = HashMap::new();
            for o in case["mem"].as_array().expect("mem") {
                let kind = kind_of(jstr(&o["kind"]));
                let data = bytes(&o["data"]);
                m.insert(gix_object::compute_hash(gix_hash::Kind::Sha1, kind, &data), (kind, data));
            }
            gix_pack::Bundle::write_to_directory(&mut input, Some(&dir), &mut progress, &interrupt, Some(Mem(m)), options)
        }
        objects_dir => {
            let odb = gix_odb::at(objects_dir).expect("open receiving object database");
            gix_pack::Bundle::write_to_directory(&mut input, Some(&dir), &mut progress, &interrupt, Some(odb), options)
        }
    };
    let outcome = match res {
        Ok(o) => o,
        Err(e) => {
            return json!({"ok": false, "err": format!("{e}"), "num_objects": 0, "made": [], "index_hash": "", "data_hash": "", "objects": []})
        }
    };
    let mut objects = Vec::new();
    if jbool(&case["read"]) {
        if let Some(bundle) = outcome.to_bundle() {
            match bundle {
                Ok(bundle) => {
                    let mut buf = Vec::new();
                    let mut inflate = gix_features::zlib::Inflate::default();
                    for e in bundle.index.iter() {
                        match bundle.find(&e.oid, &mut buf, &mut inflate, &mut gix_pack::cache::Never) {
                            Ok(Some((data, _loc))) => objects.push(json!({
                                "id": e.oid.to_hex().to_string(),
                                "rehash": gix_object::compute_hash(gix_hash::Kind::Sha1, data.kind, data.data).to_hex().to_string(),
                                "kind": data.kind.to_string(), "size": data.data.len()})),
                            Ok(None) => objects.push(json!({"id": e.oid.to_hex().to_string(), "err": "not found"})),
                            Err(err) => objects.push(json!({"id": e.oid.to_hex().to_string(), "err": format!("{err}")})),
                        }
                    }
                }
                Err(err) => objects.push(json!({"id": "", "err": format!("bundle: {err}")})),
            }
        }
    }
    json!({"ok": true, "err": "", "num_objects": outcome.index.num_objects,
           "made": [file_name(&outcome.data_path), file_name(&outcome.index_path), file_name(&outcome.keep_path)],
           "index_hash": outcome.index.index_hash.to_hex().to_string(), "data_hash": outcome.index.data_hash.to_hex().to_string(),
           "objects": objects})
}

fn main() {
    run(|case| match jstr(&case["op"]) {
        "write" => write_case(case),
        other => panic!("unknown op {other}"),
    });
}
