//! C31 executor: fetch / clone with the `gix` crate over the file:// transport (spawns git-upload-pack).
//!
//! case: {"op": "fetch", "repo": "<client repository>", "remote": "origin", "protocol": 1|2, "tags": "default"|"none"|"all",
//!        "depth": n (0 = no shallow)}
//!       {"op": "clone", "url": "<server path>", "dest": "<new directory>", "bare": bool, "protocol": 1|2, "depth": n}
//! got:  {"ok", "err", "status": "NoPackReceived"|"Change", "updates": [[remote name, local name, mode]], "negotiate_rounds": n}
use std::sync::atomic::AtomicBool;
use vhlib::*;

fn describe(outcome: &gix::remote::fetch::Outcome) -> Json {
    use gix::remote::fetch::Status;
    let (status, update_refs, rounds) = match &outcome.status {
        Status::NoPackReceived { update_refs, negotiate, .. } => {
            ("NoPackReceived", update_refs, negotiate.as_ref().map(|n| n.rounds.len()).unwrap_or(0))
        }
        Status::Change { update_refs, negotiate, .. } => ("Change", update_refs, negotiate.rounds.len()),
    };
    let updates: Vec<Json> = outcome
        .ref_map
        .mappings
        .iter()
        .zip(update_refs.updates.iter())
        .map(|(m, u)| {
            json!([
                m.remote.as_name().map(|n| n.to_string()).unwrap_or_default(),
                m.local.as_ref().map(|n| n.to_string()).unwrap_or_default(),
                format!("{:?}", u.mode).split(|c: char| !c.is_alphanumeric()).next().unwrap_or("").to_string()
            ])
        })
        .collect();
    json!({"ok": true, "err": "", "status": status, "updates": updates, "negotiate_rounds": rounds})
}

fn failed(e: impl std::fmt::Display) -> Json {
    json!({"ok": false, "err": e.to_string(), "status": "", "updates": [], "negotiate_rounds": 0})
}

fn shallow_of(case: &Json) -> gix::remote::fetch::Shallow {
    match jint(&case["depth"]) {
        0 => gix::remote::fetch::Shallow::NoChange,
        n => gix::remote::fetch::Shallow::DepthAtRemote((n as u32).try_into().expect("non-zero")),
    }
}

fn fetch(case: &Json) -> Json {
    let overrides = [format!("protocol.version={}", jint(&case["protocol"]))];
    let repo = match gix::open_opts(jstr(&case["repo"]), gix::open::Options::isolated().config_overrides(overrides)) {
        Ok(r) => r,
        Err(e) => return failed(format!("open: {e}")),
    };
    let remote = match repo.find_remote(jstr(&case["remote"])) {
        Ok(r) => r,
        Err(e) => return failed(format!("find_remote: {e}")),
    };
    let remote = match jstr(&case["tags"]) {
        "default" => remote,
        "none" => remote.with_fetch_tags(gix::remote::fetch::Tags::None),
        "all" => remote.with_fetch_tags(gix::remote::fetch::Tags::All),
        other => panic!("tags {other}"),
    };
    let interrupt = AtomicBool::new(false);
    let res = (|| -> Result<gix::remote::fetch::Outcome, Box<dyn std::error::Error>> {
        let conn = remote.connect(gix::remote::Direction::Fetch)?;
        let prep = conn.prepare_fetch(gix::progress::Discard, Default::default())?;
        Ok(prep.with_shallow(shallow_of(case)).receive(gix::progress::Discard, &interrupt)?)
    })();
    match res {
        Ok(o) => describe(&o),
        Err(e) => failed(e),
    }
}

fn clone(case: &Json) -> Json {
    let url = jstr(&case["url"]);
    let dest = jstr(&case["dest"]);
    let interrupt = AtomicBool::new(false);
    let res = (|| -> Result<gix::remote::fetch::Outcome, Box<dyn std::error::Error>> {
        let prep = if jbool(&case["bare"]) { gix::prepare_clone_bare(url, dest)? } else { gix::prepare_clone(url, dest)? };
        let mut prep = prep
            .with_in_memory_config_overrides([format!("protocol.version={}", jint(&case["protocol"]))])
            .with_shallow(shallow_of(case));
        let (_repo, outcome) = prep.fetch_only(gix::progress::Discard, &interrupt)?;
        Ok(outcome)
    })();
    match res {
        Ok(o) => describe(&o),
        Err(e) => failed(e),
    }
}

fn main() {
    run(|case| match jstr(&case["op"]) {
        "fetch" => fetch(case),
        "clone" => clone(case),
        other => panic!("unknown op {other}"),
    });
}
