//! C34 executor: what the ssh and local transports put on the command line of the programs they spawn.
//!
//! The binary doubles as the spawned program: when VH_FAKE_OUT is set at start-up it appends its
//! arguments (one JSON array of byte arrays per invocation) to that file and exits with VH_FAKE_EXIT.
//!
//! op "ssh":   {"url": bytes, "variants": [{"kind","v2","shell"}]}
//!             -> {parsed, scheme, view:{user,host,port,path}, classify:{user,host,path_safe}, runs:[{refused, class, argvs, err}]}
//! op "local": {"path": bytes} -> {refused, class, argvs, err}
//! op "quote": {"s": bytes}    -> {quoted}
use bstr::ByteSlice;
use gix_transport::client::{self, ssh, Transport};
use gix_transport::{Protocol, Service};
use std::os::unix::ffi::OsStrExt;
use std::path::PathBuf;
use vhlib::*;

fn fake_main(out: &str) -> ! {
    use std::io::Write;
    let args: Vec<Json> = std::env::args_os().skip(1).map(|a| jbytes(a.as_bytes())).collect();
    let mut f = std::fs::OpenOptions::new().create(true).append(true).open(out).expect("open fake out");
    writeln!(f, "{}", Json::Array(args)).expect("write fake out");
    let code = std::env::var("VH_FAKE_EXIT").ok().and_then(|c| c.parse().ok()).unwrap_or(0);
    std::process::exit(code)
}

fn workdir() -> PathBuf {
    let d = PathBuf::from(std::env::var("VERIF_WORK").expect("VERIF_WORK")).join(format!("c34-{}", std::process::id()));
    std::fs::create_dir_all(&d).expect("mkdir");
    d
}

fn take_invocations(out: &PathBuf) -> Json {
    let text = std::fs::read_to_string(out).unwrap_or_default();
    let _ = std::fs::remove_file(out);
    Json::Array(text.lines().map(|l| serde_json_from(l)).collect())
}

fn serde_json_from(l: &str) -> Json {
    // vhlib re-exports serde_json's Value; parse through its FromStr
    l.parse::<Json>().expect("fake out line")
}

fn opt_str(v: Option<&str>) -> Json {
    match v {
        None => json!([]),
        Some(s) => json!([jbytes(s.as_bytes())]),
    }
}

fn safety(a: gix_url::ArgumentSafety<'_>) -> &'static str {
    match a {
        gix_url::ArgumentSafety::Absent => "absent",
        gix_url::ArgumentSafety::Usable(_) => "usable",
        gix_url::ArgumentSafety::Dangerous(_) => "dangerous",
    }
}

fn handshake_class(e: &client::Error) -> String {
    match e {
        client::Error::SshInvocation(ssh::invocation::Error::AmbiguousUserName { .. }) => "user".into(),
        client::Error::SshInvocation(ssh::invocation::Error::AmbiguousHostName { .. }) => "host".into(),
        client::Error::SshInvocation(ssh::invocation::Error::Unsupported { .. }) => "port".into(),
        client::Error::AmbiguousPath { .. } => "path".into(),
        other => format!("after-spawn:{other}"),
    }
}

fn ssh_case(case: &Json) -> Json {
    let input = bytes(&case["url"]);
    let url = match gix_url::parse(input.as_bstr()) {
        Ok(u) => u,
        Err(e) => return json!({"parsed": false, "err": e.to_string()}),
    };
    let view = json!({"user": opt_str(url.user()), "host": opt_str(url.host()),
                      "port": match url.port { None => json!([]), Some(p) => json!([p]) }, "path": jbytes(&url.path)});
    let classify = json!({"user": safety(url.user_as_argument()), "host": safety(url.host_as_argument()),
                          "path_safe": url.path_argument_safe().is_some()});
    let dir = workdir();
    let out = dir.join("fake.out");
    let me = std::env::current_exe().expect("current exe");
    // a program name that says nothing about the kind, reachable without a shell
    let plain = dir.join("transport-program");
    if !plain.exists() {
        std::os::unix::fs::symlink(&me, &plain).expect("symlink");
    }
    let mut runs = Vec::new();
    for v in case["variants"].as_array().expect("variants") {
        let _ = std::fs::remove_file(&out);
        std::env::set_var("VH_FAKE_OUT", &out);
        std::env::set_var("VH_FAKE_EXIT", "0");
        let kind = match jstr(&v["kind"]) {
            "ssh" => Some(ssh::ProgramKind::Ssh),
            "plink" => Some(ssh::ProgramKind::Plink),
            "putty" => Some(ssh::ProgramKind::Putty),
            "tortoiseplink" => Some(ssh::ProgramKind::TortoisePlink),
            "simple" => Some(ssh::ProgramKind::Simple),
            "auto" => None,
            other => panic!("kind {other}"),
        };
        // "shell": a command line that gix-command has to run through `sh -c '... "$@"'`
        let command: std::ffi::OsString = if jbool(&v["shell"]) {
            format!("VH_VIA_SHELL=1 {}", plain.display()).into()
        } else {
            plain.clone().into()
        };
        let options = ssh::connect::Options { command: Some(command), disallow_shell: false, kind };
        let version = if jbool(&v["v2"]) { Protocol::V2 } else { Protocol::V1 };
        let run = match ssh::connect(url.clone(), version, options, false) {
            Err(ssh::Error::AmbiguousHostName { .. }) => json!({"refused": true, "class": "host", "err": ""}),
            Err(ssh::Error::UnsupportedScheme(_)) => json!({"refused": true, "class": "scheme", "err": ""}),
            Ok(mut transport) => match transport.handshake(Service::UploadPack, &[]) {
                Ok(_) => json!({"refused": false, "class": "", "err": "handshake succeeded?"}),
                Err(e) => {
                    let class = handshake_class(&e);
                    if class.starts_with("after-spawn") {
                        json!({"refused": false, "class": "", "err": class})
                    } else {
                        json!({"refused": true, "class": class, "err": ""})
                    }
                }
            },
        };
        std::env::remove_var("VH_FAKE_OUT");
        let mut run = run;
        run["argvs"] = take_invocations(&out);
        runs.push(run);
    }
    json!({"parsed": true, "scheme": url.scheme.as_str(), "view": view, "classify": classify, "runs": runs})
}

fn local_case(case: &Json) -> Json {
    let path = bytes(&case["path"]);
    let dir = workdir();
    let out = dir.join("fake.out");
    let bin = dir.join("bin");
    std::fs::create_dir_all(&bin).expect("mkdir bin");
    let prog = bin.join("git-upload-pack");
    if !prog.exists() {
        std::os::unix::fs::symlink(std::env::current_exe().expect("exe"), &prog).expect("symlink");
    }
    let _ = std::fs::remove_file(&out);
    let old_path = std::env::var_os("PATH").unwrap_or_default();
    std::env::set_var("PATH", &bin);
    std::env::set_var("VH_FAKE_OUT", &out);
    std::env::set_var("VH_FAKE_EXIT", "0");
    let mut transport = client::file::connect(path, Protocol::V2, false).expect("infallible");
    let res = transport.handshake(Service::UploadPack, &[]).map(|_| ());
    std::env::remove_var("VH_FAKE_OUT");
    std::env::set_var("PATH", old_path);
    let mut run = match res {
        Ok(()) => json!({"refused": false, "class": "", "err": "handshake succeeded?"}),
        Err(e) => {
            let class = handshake_class(&e);
            if class.starts_with("after-spawn") {
                json!({"refused": false, "class": "", "err": class})
            } else {
                json!({"refused": true, "class": class, "err": ""})
            }
        }
    };
    drop(transport);
    run["argvs"] = take_invocations(&out);
    run
}

fn main() {
    if let Ok(out) = std::env::var("VH_FAKE_OUT") {
        fake_main(&out);
    }
    run(|case| match jstr(&case["op"]) {
        "ssh" => ssh_case(case),
        "local" => local_case(case),
        "quote" => json!({"quoted": jbytes(&gix_quote::single(bytes(&case["s"]).as_bstr()))}),
        other => panic!("unknown op {other}"),
    });
}
