//! C38 executor: attribute values of gix_worktree::Stack.
//! case: {"srcs": [{"kind": "dir"|"info"|"global", "base": [bytes], "content": [bytes]}..],
//!        "queries": [{"p": [bytes], "d": bool}..]}
//! The sources are written to a scratch worktree / git dir under $VERIF_WORK; then, once case-sensitively and
//! once case-folding, a fresh `gix_worktree::Stack` (attribute state: globals = built-ins + core.attributesFile
//! via `gix_attributes::Search::new_globals`, `info/attributes`, per-directory files read from the worktree)
//! answers every query in order via `at_entry(path, mode)` + `matching_attributes()`.
//! got: {"cs": [[[name, st, value]..]..], "ic": [..]}  per query the attributes that are not unspecified,
//!       st = "set" | "unset" | "value" (value bytes given for "value", else []).
use std::path::{Path, PathBuf};

use bstr::ByteSlice;
use gix_glob::pattern::Case;
use vhlib::*;

fn answers(root: &Path, info: &Path, global: Option<PathBuf>, case: Case, case_json: &Json) -> Json {
    let mut buf = Vec::new();
    let mut collection = gix_attributes::search::MetadataCollection::default();
    let globals = gix_attributes::Search::new_globals(global.into_iter(), &mut buf, &mut collection).expect("globals");
    let attrs = gix_worktree::stack::state::Attributes::new(
        globals,
        Some(info.to_owned()),
        gix_worktree::stack::state::attributes::Source::WorktreeThenIdMapping,
        collection,
    );
    let mut stack = gix_worktree::Stack::new(root, gix_worktree::stack::State::AttributesStack(attrs), case, buf, vec![]);
    let mut outcome = stack.attribute_matches();
    let mut out = Vec::new();
    for q in case_json["queries"].as_array().expect("queries") {
        let p = bytes(&q["p"]);
        let mode = if jbool(&q["d"]) {
            gix_index::entry::Mode::DIR
        } else {
            gix_index::entry::Mode::FILE
        };
        match stack.at_entry(p.as_bstr(), Some(mode), &gix_object::find::Never) {
            Ok(platform) => {
                platform.matching_attributes(&mut outcome);
                let mut found = Vec::new();
                for m in outcome.iter() {
                    let name = m.assignment.name.as_str().as_bytes().to_vec();
                    match m.assignment.state {
                        gix_attributes::StateRef::Set => found.push(json!([jbytes(&name), "set", []])),
                        gix_attributes::StateRef::Unset => found.push(json!([jbytes(&name), "unset", []])),
                        gix_attributes::StateRef::Value(v) => found.push(json!([jbytes(&name), "value", jbytes(v.as_bstr())])),
                        gix_attributes::StateRef::Unspecified => {}
                    }
                }
                out.push(Json::Array(found));
            }
            Err(e) => out.push(json!({"err": e.to_string()})),
        }
    }
    Json::Array(out)
}

fn main() {
    run(|case| {
        let work = std::env::var("VERIF_WORK").expect("VERIF_WORK");
        let top = PathBuf::from(work).join(format!("at-{}", std::process::id()));
        let _ = std::fs::remove_dir_all(&top);
        let root = top.join("wt");
        let git_dir = top.join("gd");
        std::fs::create_dir_all(&root).expect("mkdir");
        std::fs::create_dir_all(git_dir.join("info")).expect("mkdir");
        let info = git_dir.join("info").join("attributes");
        let mut global = None;
        for s in case["srcs"].as_array().expect("srcs") {
            let content = bytes(&s["content"]);
            let path = match jstr(&s["kind"]) {
                "dir" => {
                    let base = bytes(&s["base"]);
                    let dir = if base.is_empty() {
                        root.clone()
                    } else {
                        root.join(gix_path::from_bstr(base.as_bstr()))
                    };
                    std::fs::create_dir_all(&dir).expect("mkdir");
                    dir.join(".gitattributes")
                }
                "info" => info.clone(),
                "global" => {
                    let p = top.join("global-attributes");
                    global = Some(p.clone());
                    p
                }
                other => panic!("unknown kind {other}"),
            };
            if !content.is_empty() {
                std::fs::write(&path, &content).expect("write");
            }
        }
        let out = json!({
            "cs": answers(&root, &info, global.clone(), Case::Sensitive, case),
            "ic": answers(&root, &info, global, Case::Fold, case),
        });
        let _ = std::fs::remove_dir_all(&top);
        out
    });
}
