//! C02 executor: decode object bytes with the full and with the streaming decoder, re-encode.
//!
//! case: {"kind": "commit"|"tag"|"tree", "bytes": [..]}
//! got:  {"full": {"ok","err","v"}                      CommitRef/TagRef/TreeRef::from_bytes -> value (as in ObjFormat.tla)
//!        "iter": {"ok","err","tokens":[..]}            CommitRefIter/TagRefIter tokens [t,a,b,some,sig]; TreeRefIter entries
//!        "helpers": {...}                              CommitRefIter::{tree_id,parent_ids,author,committer,message}, TagRefIter::{target_id,tagger}
//!        "reenc_ref": {"ok","bytes","size"}            WriteTo of the borrowed object
//!        "reenc": {"ok","bytes","size","id"}           WriteTo of the owned object + compute_hash
//!        "id_in"                                       compute_hash(kind, input bytes)}
use bstr::{BStr, BString};
use gix_date::time::Sign;
use gix_object::{commit, tag, CommitRef, CommitRefIter, Kind, Object, ObjectRef, TagRef, TagRefIter, TreeRef, TreeRefIter, WriteTo};
use vhlib::*;

fn jtime(t: &gix_date::Time) -> Json {
    let abs = t.offset.unsigned_abs();
    json!({"secs": jbytes(t.seconds.to_string().as_bytes()),
           "sign": if t.sign == Sign::Minus { 45 } else { 43 },
           "hh": abs / 3600, "mm": (abs % 3600) / 60})
}

/// the raw offsets of the times of a decoded object, so that the judge can see a sign/offset disagreement
fn offsets(o: &Object) -> Json {
    let times: Vec<gix_date::Time> = match o {
        Object::Commit(c) => vec![c.author.time, c.committer.time],
        Object::Tag(t) => t.tagger.iter().map(|s| s.time).collect(),
        _ => vec![],
    };
    Json::Array(times.iter().map(|t| json!({"offset": t.offset, "sign": if t.sign == Sign::Minus { 45 } else { 43 }})).collect())
}

fn jsig_ref(s: &gix_actor::SignatureRef<'_>) -> Json {
    json!({"name": jbytes(s.name), "email": jbytes(s.email), "time": jtime(&s.time)})
}

fn jsig(s: &gix_actor::Signature) -> Json {
    jsig_ref(&s.to_ref())
}

fn no_sig() -> Json {
    json!({"name": [], "email": [], "time": {"secs": [48], "sign": 43, "hh": 0, "mm": 0}})
}

fn jopt(b: Option<&BStr>) -> Json {
    match b {
        Some(b) => json!({"some": true, "v": jbytes(b)}),
        None => json!({"some": false, "v": []}),
    }
}

fn jopt_owned(b: &Option<BString>) -> Json {
    jopt(b.as_ref().map(|b| b.as_ref()))
}

fn jvalue(o: &Object) -> Json {
    match o {
        Object::Commit(c) => json!({
            "tree": jbytes(c.tree.to_string().as_bytes()),
            "parents": c.parents.iter().map(|p| jbytes(p.to_string().as_bytes())).collect::<Vec<_>>(),
            "author": jsig(&c.author), "committer": jsig(&c.committer),
            "encoding": jopt_owned(&c.encoding),
            "extra": c.extra_headers.iter().map(|(n, v)| json!({"name": jbytes(n), "value": jbytes(v)})).collect::<Vec<_>>(),
            "message": jbytes(&c.message)}),
        Object::Tag(t) => json!({
            "target": jbytes(t.target.to_string().as_bytes()),
            "target_kind": jbytes(t.target_kind.as_bytes()),
            "name": jbytes(&t.name),
            "tagger": match &t.tagger { Some(s) => json!({"some": true, "v": jsig(s)}), None => json!({"some": false, "v": no_sig()}) },
            "message": jbytes(&t.message),
            "pgp": jopt_owned(&t.pgp_signature)}),
        Object::Tree(t) => json!({"entries": t.entries.iter().map(|e| {
            let mut buf = Default::default();
            json!({"mode": jbytes(e.mode.as_bytes(&mut buf)), "name": jbytes(&e.filename), "id": jbytes(e.oid.as_bytes())})
        }).collect::<Vec<_>>()}),
        Object::Blob(b) => json!({"data": jbytes(&b.data)}),
    }
}

fn tok(t: &str, a: &[u8], b: &[u8], some: bool, sig: Json) -> Json {
    json!({"t": t, "a": jbytes(a), "b": jbytes(b), "some": some, "sig": sig})
}

fn commit_tokens(data: &[u8]) -> Json {
    let mut out = Vec::new();
    for t in CommitRefIter::from_bytes(data) {
        match t {
            Ok(commit::ref_iter::Token::Tree { id }) => out.push(tok("tree", id.to_string().as_bytes(), b"", false, no_sig())),
            Ok(commit::ref_iter::Token::Parent { id }) => out.push(tok("parent", id.to_string().as_bytes(), b"", false, no_sig())),
            Ok(commit::ref_iter::Token::Author { signature }) => out.push(tok("author", b"", b"", true, jsig_ref(&signature))),
            Ok(commit::ref_iter::Token::Committer { signature }) => out.push(tok("committer", b"", b"", true, jsig_ref(&signature))),
            Ok(commit::ref_iter::Token::Encoding(e)) => out.push(tok("encoding", e, b"", false, no_sig())),
            Ok(commit::ref_iter::Token::ExtraHeader((n, v))) => out.push(tok("extra", n, v.as_ref(), false, no_sig())),
            Ok(commit::ref_iter::Token::Message(m)) => out.push(tok("message", m, b"", false, no_sig())),
            Err(e) => return json!({"ok": false, "err": e.to_string(), "tokens": out}),
        }
    }
    json!({"ok": true, "err": "", "tokens": out})
}

fn tag_tokens(data: &[u8]) -> Json {
    let mut out = Vec::new();
    for t in TagRefIter::from_bytes(data) {
        match t {
            Ok(tag::ref_iter::Token::Target { id }) => out.push(tok("target", id.to_string().as_bytes(), b"", false, no_sig())),
            Ok(tag::ref_iter::Token::TargetKind(k)) => out.push(tok("kind", k.as_bytes(), b"", false, no_sig())),
            Ok(tag::ref_iter::Token::Name(n)) => out.push(tok("name", n, b"", false, no_sig())),
            Ok(tag::ref_iter::Token::Tagger(s)) => out.push(match s {
                Some(s) => tok("tagger", b"", b"", true, jsig_ref(&s)),
                None => tok("tagger", b"", b"", false, no_sig()),
            }),
            Ok(tag::ref_iter::Token::Body { message, pgp_signature }) => out.push(tok(
                "body",
                message,
                pgp_signature.map(|s| s.as_ref()).unwrap_or(b""),
                pgp_signature.is_some(),
                no_sig(),
            )),
            Err(e) => return json!({"ok": false, "err": e.to_string(), "tokens": out}),
        }
    }
    json!({"ok": true, "err": "", "tokens": out})
}

fn tree_tokens(data: &[u8]) -> Json {
    let mut out = Vec::new();
    for e in TreeRefIter::from_bytes(data) {
        match e {
            Ok(e) => {
                let mut buf = Default::default();
                out.push(json!({"mode": jbytes(e.mode.as_bytes(&mut buf)), "name": jbytes(e.filename), "id": jbytes(e.oid.as_bytes())}));
            }
            Err(e) => return json!({"ok": false, "err": e.to_string(), "tokens": out}),
        }
    }
    json!({"ok": true, "err": "", "tokens": out})
}

fn reenc(o: &dyn WriteTo) -> Json {
    let mut buf = Vec::new();
    let ok = o.write_to(&mut buf).is_ok();
    json!({"ok": ok, "bytes": jbytes(&buf), "size": o.size()})
}

fn res_sig(r: Result<gix_actor::SignatureRef<'_>, gix_object::decode::Error>) -> Json {
    match r {
        Ok(s) => json!({"some": true, "v": jsig_ref(&s)}),
        Err(_) => json!({"some": false, "v": no_sig()}),
    }
}

fn main() {
    run(|case| {
        let data = bytes(&case["bytes"]);
        let kind = match jstr(&case["kind"]) {
            "commit" => Kind::Commit,
            "tag" => Kind::Tag,
            "tree" => Kind::Tree,
            other => panic!("unsupported kind {other}"),
        };
        let mut out = json!({"id_in": jbytes(gix_object::compute_hash(gix_hash::Kind::Sha1, kind, &data).as_bytes())});
        let full = match kind {
            Kind::Commit => CommitRef::from_bytes(&data).map(ObjectRef::Commit),
            Kind::Tag => TagRef::from_bytes(&data).map(ObjectRef::Tag),
            _ => TreeRef::from_bytes(&data).map(ObjectRef::Tree),
        };
        match full {
            Ok(r) => {
                out["reenc_ref"] = reenc(&r);
                let owned = r.into_owned();
                out["full"] = json!({"ok": true, "err": "", "v": jvalue(&owned), "offsets": offsets(&owned)});
                let mut re = reenc(&owned);
                let rb = bytes(&re["bytes"]);
                re["id"] = jbytes(gix_object::compute_hash(gix_hash::Kind::Sha1, kind, &rb).as_bytes());
                out["reenc"] = re;
            }
            Err(e) => {
                out["full"] = json!({"ok": false, "err": e.to_string(), "v": [], "offsets": []});
                out["reenc_ref"] = json!({"ok": false, "bytes": [], "size": 0});
                out["reenc"] = json!({"ok": false, "bytes": [], "size": 0, "id": []});
            }
        }
        out["iter"] = match kind {
            Kind::Commit => commit_tokens(&data),
            Kind::Tag => tag_tokens(&data),
            _ => tree_tokens(&data),
        };
        out["helpers"] = match kind {
            Kind::Commit => json!({
                "tree_id": CommitRefIter::from_bytes(&data).tree_id().map(|id| jbytes(id.to_string().as_bytes())).unwrap_or(json!([])),
                "parent_ids": CommitRefIter::from_bytes(&data).parent_ids().map(|id| jbytes(id.to_string().as_bytes())).collect::<Vec<_>>(),
                "author": res_sig(CommitRefIter::from_bytes(&data).author()),
                "committer": res_sig(CommitRefIter::from_bytes(&data).committer()),
                "message": CommitRefIter::from_bytes(&data).message().map(|m| jbytes(m)).unwrap_or(json!([])),
            }),
            Kind::Tag => json!({
                "target_id": TagRefIter::from_bytes(&data).target_id().map(|id| jbytes(id.to_string().as_bytes())).unwrap_or(json!([])),
                "tagger": match TagRefIter::from_bytes(&data).tagger() {
                    Ok(Some(s)) => json!({"some": true, "v": jsig_ref(&s)}),
                    _ => json!({"some": false, "v": no_sig()}),
                },
            }),
            _ => json!({}),
        };
        out
    });
}
