//! C45 executor: the built-in three-way text merge.
//! case: {"base":[bytes], "ours":[bytes], "theirs":[bytes],
//!        "opts":[{"favor":"keep"|"ours"|"theirs"|"union", "style":"merge"|"diff3"|"zdiff3", "size":n, "labels":bool, "algo":"myers"|"minimal"|"histogram"}..]}
//! got:  [{"result":[bytes], "conflict":bool} | {"panic": msg}] (one per option set)
use bstr::ByteSlice;
use gix_merge::blob::builtin_driver::text::{Conflict, ConflictStyle, Labels, Options};
use gix_merge::blob::Resolution;
use vhlib::*;

fn main() {
    run(|case| {
        let base = bytes(&case["base"]);
        let ours = bytes(&case["ours"]);
        let theirs = bytes(&case["theirs"]);
        let mut outs = Vec::new();
        for o in case["opts"].as_array().expect("opts") {
            let conflict = match jstr(&o["favor"]) {
                "keep" => Conflict::Keep {
                    style: match jstr(&o["style"]) {
                        "merge" => ConflictStyle::Merge,
                        "diff3" => ConflictStyle::Diff3,
                        "zdiff3" => ConflictStyle::ZealousDiff3,
                        other => panic!("style {other}"),
                    },
                    marker_size: jint(&o["size"]) as usize,
                },
                "ours" => Conflict::ResolveWithOurs,
                "theirs" => Conflict::ResolveWithTheirs,
                "union" => Conflict::ResolveWithUnion,
                other => panic!("favor {other}"),
            };
            let diff_algorithm = match o["algo"].as_str().unwrap_or("myers") {
                "myers" => imara_diff::Algorithm::Myers,
                "minimal" => imara_diff::Algorithm::MyersMinimal,
                "histogram" => imara_diff::Algorithm::Histogram,
                other => panic!("algo {other}"),
            };
            let labels = if o["labels"].as_bool().unwrap_or(false) {
                Labels {
                    ancestor: Some(b"base".as_bstr()),
                    current: Some(b"ours".as_bstr()),
                    other: Some(b"theirs".as_bstr()),
                }
            } else {
                Labels::default()
            };
            let res = guarded(|| {
                let mut out = Vec::new();
                let mut input = imara_diff::intern::InternedInput::new(&[][..], &[]);
                let r = gix_merge::blob::builtin_driver::text(
                    &mut out,
                    &mut input,
                    labels,
                    &ours,
                    &base,
                    &theirs,
                    Options { diff_algorithm, conflict },
                );
                (out, r)
            });
            outs.push(match res {
                Ok((out, r)) => json!({"result": jbytes(&out), "conflict": r == Resolution::Conflict}),
                Err(msg) => json!({"panic": msg}),
            });
        }
        Json::Array(outs)
    });
}
