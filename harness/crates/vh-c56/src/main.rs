//! C56 executor: chunked writes through deflate::Write / hash::Write, chunked reads through
//! stream::inflate::read and compute_stream_hash.  Only records; digests of *outputs* are computed
//! by the driver's evaluator, the digests reported here are the ones the code under test returns.
//!
//! case: {"data": path, "off": n, "len": n, "streams": [[size..]..], "kind": "blob",
//!        "hdr": [bytes], "accept": [n>=1..], "rd": [n>=1..], "dst": [n>=1..], "out": path}
//! got:  {"streams": [{"rets","chunks","fchunks","fok"}..], "z_len", "ginfl": [len..] | "ginfl_err",
//!        "hw", "hw_len", "ch", "sh", "pipe", "pz_len"}
//! file `out` = deflate sink ++ gix-inflated bytes ++ hash::Write sink ++ pipeline sink.
use std::io::{BufRead, Read, Write};
use vhlib::*;

/// Inner writer that records the size of every `write` it receives and accepts all of it.
#[derive(Default)]
struct RecSink {
    bytes: Vec<u8>,
    calls: Vec<usize>,
}
impl Write for RecSink {
    fn write(&mut self, buf: &[u8]) -> std::io::Result<usize> {
        self.calls.push(buf.len());
        self.bytes.extend_from_slice(buf);
        Ok(buf.len())
    }
    fn flush(&mut self) -> std::io::Result<()> {
        Ok(())
    }
}

/// Inner writer accepting at most `accept[i % n]` bytes on its i-th call (short writes).
struct ShortSink {
    bytes: Vec<u8>,
    accept: Vec<usize>,
    i: usize,
}
impl Write for ShortSink {
    fn write(&mut self, buf: &[u8]) -> std::io::Result<usize> {
        let a = self.accept[self.i % self.accept.len()].min(buf.len());
        self.i += 1;
        self.bytes.extend_from_slice(&buf[..a]);
        Ok(a)
    }
    fn flush(&mut self) -> std::io::Result<()> {
        Ok(())
    }
}

/// Reader handing out at most `sizes[i % n]` bytes per read / fill_buf.
struct Chunked<'a> {
    data: &'a [u8],
    pos: usize,
    sizes: Vec<usize>,
    i: usize,
    cur: usize,
}
impl<'a> Chunked<'a> {
    fn new(data: &'a [u8], sizes: Vec<usize>) -> Self {
        Chunked { data, pos: 0, sizes, i: 0, cur: 0 }
    }
}
impl Read for Chunked<'_> {
    fn read(&mut self, out: &mut [u8]) -> std::io::Result<usize> {
        let n = self.sizes[self.i % self.sizes.len()].min(out.len()).min(self.data.len() - self.pos);
        self.i += 1;
        out[..n].copy_from_slice(&self.data[self.pos..self.pos + n]);
        self.pos += n;
        Ok(n)
    }
}
impl BufRead for Chunked<'_> {
    fn fill_buf(&mut self) -> std::io::Result<&[u8]> {
        if self.cur == 0 {
            self.cur = self.sizes[self.i % self.sizes.len()].min(self.data.len() - self.pos);
            self.i += 1;
        }
        Ok(&self.data[self.pos..self.pos + self.cur])
    }
    fn consume(&mut self, amt: usize) {
        self.pos += amt;
        self.cur -= amt;
    }
}

fn usizes(v: &Json) -> Vec<usize> {
    v.as_array().expect("array").iter().map(|x| x.as_u64().expect("size") as usize).collect()
}

fn kind_of(s: &str) -> gix_object::Kind {
    match s {
        "blob" => gix_object::Kind::Blob,
        "tree" => gix_object::Kind::Tree,
        "commit" => gix_object::Kind::Commit,
        "tag" => gix_object::Kind::Tag,
        other => panic!("kind {other}"),
    }
}

fn hex(d: &[u8]) -> String {
    d.iter().map(|b| format!("{b:02x}")).collect()
}

fn main() {
    run(|case| {
        let path = jstr(&case["data"]);
        let off = jint(&case["off"]) as usize;
        let len = jint(&case["len"]) as usize;
        let all = std::fs::read(path).expect("data file");
        let data = &all[off..off + len];
        let streams: Vec<Vec<usize>> = case["streams"].as_array().expect("streams").iter().map(usizes).collect();
        let mut out = json!({});

        // ---- 1. deflate::Write with the given write sizes; flush + reset between streams
        // the sink is shared so that the chunks it receives can be attributed to the call that caused them
        let shared = std::rc::Rc::new(std::cell::RefCell::new(RecSink::default()));
        struct Handle(std::rc::Rc<std::cell::RefCell<RecSink>>);
        impl Write for Handle {
            fn write(&mut self, buf: &[u8]) -> std::io::Result<usize> {
                self.0.borrow_mut().write(buf)
            }
            fn flush(&mut self) -> std::io::Result<()> {
                Ok(())
            }
        }
        let mut w = gix_features::zlib::stream::deflate::Write::new(Handle(shared.clone()));
        let mut pos = 0usize;
        let mut srec = Vec::new();
        let take = |from: usize| -> (Vec<usize>, usize) {
            let s = shared.borrow();
            (s.calls[from..].to_vec(), s.calls.len())
        };
        let mut mark = 0usize;
        for (si, sizes) in streams.iter().enumerate() {
            if si > 0 {
                w.reset();
            }
            let mut rets = Vec::new();
            let mut chunks = Vec::new();
            for &n in sizes {
                match w.write(&data[pos..pos + n]) {
                    Ok(k) => rets.push(json!(k)),
                    Err(e) => rets.push(json!(format!("error: {e}"))),
                }
                pos += n;
                let (c, m) = take(mark);
                mark = m;
                chunks.push(json!(c));
            }
            let fl = w.flush();
            let (c, m) = take(mark);
            mark = m;
            srec.push(json!({"sizes": sizes, "rets": rets, "chunks": chunks, "fchunks": c, "fok": fl.is_ok()}));
        }
        drop(w);
        let z = std::mem::take(&mut shared.borrow_mut().bytes);
        out["streams"] = Json::Array(srec);
        out["z_len"] = json!(z.len());

        // ---- 2. gix's own inflate over the sink, fed in other chunk sizes
        let rd = usizes(&case["rd"]);
        let dst = usizes(&case["dst"]);
        let mut inflated = Vec::new();
        let mut lens = Vec::new();
        let mut src = Chunked::new(&z, rd.clone());
        let mut err = None;
        'streams: for _ in 0..streams.len() {
            let mut st = gix_features::zlib::Decompress::new(true);
            let start = inflated.len();
            let mut di = 0usize;
            loop {
                let d = dst[di % dst.len()];
                di += 1;
                let mut buf = vec![0u8; d];
                match gix_features::zlib::stream::inflate::read(&mut src, &mut st, &mut buf) {
                    Ok(n) => {
                        inflated.extend_from_slice(&buf[..n]);
                        if n < d {
                            break;
                        }
                    }
                    Err(e) => {
                        err = Some(e.to_string());
                        break 'streams;
                    }
                }
            }
            lens.push(inflated.len() - start);
        }
        out["ginfl"] = json!(lens);
        out["ginfl_rest"] = json!(z.len() - src.pos);
        if let Some(e) = err {
            out["ginfl_err"] = json!(e);
        }

        // ---- 3. hashing
        let flat: Vec<usize> = streams.iter().flatten().copied().collect();
        let kind = kind_of(jstr(&case["kind"]));
        let accept = usizes(&case["accept"]);
        let mut hw = gix_features::hash::Write::new(ShortSink { bytes: Vec::new(), accept, i: 0 }, gix_hash::Kind::Sha1);
        let mut pos = 0usize;
        for &n in &flat {
            // std's write_all: re-offer what the inner writer did not take
            let mut b = &data[pos..pos + n];
            if b.is_empty() {
                let _ = hw.write(b);
            }
            while !b.is_empty() {
                let k = hw.write(b).expect("short sink never fails");
                b = &b[k..];
            }
            pos += n;
        }
        out["hw"] = json!(hex(&hw.hash.clone().digest()));
        let hw_sink = std::mem::take(&mut hw.inner.bytes);
        out["hw_len"] = json!(hw_sink.len());
        out["ch"] = json!(gix_object::compute_hash(gix_hash::Kind::Sha1, kind, data).to_string());
        let nz: Vec<usize> = flat.iter().copied().filter(|n| *n > 0).collect();
        let nz = if nz.is_empty() { vec![1] } else { nz };
        let mut rdr = Chunked::new(data, nz);
        out["sh"] = match gix_object::compute_stream_hash(
            gix_hash::Kind::Sha1,
            kind,
            &mut rdr,
            len as u64,
            &mut gix_features::progress::Discard,
            &std::sync::atomic::AtomicBool::new(false),
        ) {
            Ok(id) => json!(id.to_string()),
            Err(e) => json!(format!("error: {e}")),
        };

        // ---- 4. the loose-object pipeline: hash::Write over deflate::Write, header then data in chunks
        let hdr = bytes(&case["hdr"]);
        let mut pw = gix_features::hash::Write::new(
            gix_features::zlib::stream::deflate::Write::new(RecSink::default()),
            gix_hash::Kind::Sha1,
        );
        let mut perr = None;
        if let Err(e) = pw.write_all(&hdr) {
            perr = Some(e.to_string());
        }
        let mut pos = 0usize;
        for &n in &flat {
            if let Err(e) = pw.write_all(&data[pos..pos + n]) {
                perr = Some(e.to_string());
            }
            pos += n;
        }
        if let Err(e) = pw.flush() {
            perr = Some(e.to_string());
        }
        out["pipe"] = json!(hex(&pw.hash.clone().digest()));
        let pz = pw.inner.into_inner().bytes;
        out["pz_len"] = json!(pz.len());
        if let Some(e) = perr {
            out["pipe_err"] = json!(e);
        }

        let mut f = std::fs::File::create(jstr(&case["out"])).expect("out file");
        f.write_all(&z).expect("write");
        f.write_all(&inflated).expect("write");
        f.write_all(&hw_sink).expect("write");
        f.write_all(&pz).expect("write");
        out
    });
}
