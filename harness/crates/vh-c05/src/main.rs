//! C05 executor: object ids, hex text, prefixes.
//!
//! Ids and prefixes travel as nibble arrays (40 values 0..15, high nibble of each byte first),
//! hex text as byte arrays.
//! case: {"id":[nib;40], "n":int, "cands":[[nib;40]..], "texts":[[byte..]..]}
//! got:  {"hex":[byte..], "hex_display":[byte..],
//!        "new": P, "fromtext":[{"p":P, "id":{"ok","nibs"}, "eq_new":bool, "utf8":bool}..]}
//!   P = {"ok", "err", "hex_len", "display":[byte..], "as_oid":[nib..], "cmps":[-1|0|1 ..]}
use std::cmp::Ordering;
use vhlib::*;

fn nibs_to_id(v: &Json) -> gix_hash::ObjectId {
    let n: Vec<u8> = v.as_array().expect("nibbles").iter().map(|x| x.as_u64().expect("nibble") as u8).collect();
    assert_eq!(n.len(), 40, "an id has 40 nibbles");
    let bytes: Vec<u8> = n.chunks(2).map(|c| (c[0] << 4) | c[1]).collect();
    gix_hash::ObjectId::try_from(bytes.as_slice()).expect("20 bytes")
}

fn id_to_nibs(id: &gix_hash::oid) -> Json {
    Json::Array(id.as_bytes().iter().flat_map(|b| [Json::from(b >> 4), Json::from(b & 15)]).collect())
}

fn ord(o: Ordering) -> i64 {
    match o {
        Ordering::Less => -1,
        Ordering::Equal => 0,
        Ordering::Greater => 1,
    }
}

fn refused(err: &str) -> Json {
    json!({"ok": false, "err": err, "hex_len": 0, "display": [], "as_oid": [], "cmps": []})
}

fn accepted(p: &gix_hash::Prefix, cands: &[gix_hash::ObjectId]) -> Json {
    json!({
        "ok": true,
        "err": "",
        "hex_len": p.hex_len(),
        "display": jbytes(p.to_string().as_bytes()),
        "as_oid": id_to_nibs(p.as_oid()),
        "cmps": cands.iter().map(|c| ord(p.cmp_oid(c))).collect::<Vec<_>>(),
    })
}

fn main() {
    run(|case| {
        let id = nibs_to_id(&case["id"]);
        let n = case["n"].as_u64().expect("n") as usize;
        let cands: Vec<_> = case["cands"].as_array().expect("cands").iter().map(nibs_to_id).collect();
        let mut hex = Vec::new();
        id.write_hex_to(&mut hex).expect("write to vec");
        let new = gix_hash::Prefix::new(&id, n);
        let new_json = match &new {
            Ok(p) => accepted(p, &cands),
            Err(gix_hash::prefix::Error::TooShort { .. }) => refused("TooShort"),
            Err(gix_hash::prefix::Error::TooLong { .. }) => refused("TooLong"),
        };
        let mut fromtext = Vec::new();
        for t in case["texts"].as_array().expect("texts") {
            let t = bytes(t);
            let idres = match gix_hash::ObjectId::from_hex(&t) {
                Ok(id) => json!({"ok": true, "nibs": id_to_nibs(&id)}),
                Err(_) => json!({"ok": false, "nibs": []}),
            };
            let (p, eq_new, utf8) = match std::str::from_utf8(&t) {
                Ok(s) => match gix_hash::Prefix::from_hex(s) {
                    Ok(p) => (accepted(&p, &cands), new.as_ref().map(|q| *q == p).unwrap_or(false), true),
                    Err(gix_hash::prefix::from_hex::Error::TooShort { .. }) => (refused("TooShort"), false, true),
                    Err(gix_hash::prefix::from_hex::Error::TooLong { .. }) => (refused("TooLong"), false, true),
                    Err(gix_hash::prefix::from_hex::Error::Invalid) => (refused("Invalid"), false, true),
                },
                // not a `str`: Prefix::from_hex cannot be called at all
                Err(_) => (refused("Invalid"), false, false),
            };
            fromtext.push(json!({"p": p, "id": idres, "eq_new": eq_new, "utf8": utf8}));
        }
        json!({
            "hex": jbytes(&hex),
            "hex_display": jbytes(id.to_string().as_bytes()),
            "hex_with_len": jbytes(id.to_hex_with_len(n).to_string().as_bytes()),
            "new": new_json,
            "fromtext": fromtext,
        })
    });
}
