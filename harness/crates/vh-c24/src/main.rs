//! C24 executor: decode an index file with every thread limit.
//! case: {"path": "<index file>" | "bytes": [..], "threads": [1, 2, ..]}
//! got:  {"results": [{"threads": [n..], "state": <abstract state> | "error": msg}], one element per distinct outcome,
//!        "checksum": [20 bytes] | []}
mod dump;
use vhlib::*;

fn main() {
    run(|case| {
        let data = match case.get("path").and_then(|p| p.as_str()) {
            Some(p) => std::fs::read(p).expect("read index"),
            None => bytes(&case["bytes"]),
        };
        let mut outcomes: Vec<(Vec<u64>, Json)> = Vec::new();
        let mut checksum = json!([]);
        for t in case["threads"].as_array().expect("threads") {
            let n = t.as_u64().expect("thread limit");
            let res = guarded(|| {
                gix_index::State::from_bytes(
                    &data,
                    filetime::FileTime::from_unix_time(0, 0),
                    gix_hash::Kind::Sha1,
                    gix_index::decode::Options {
                        thread_limit: Some(n as usize),
                        min_extension_block_in_bytes_for_threading: 0,
                        expected_checksum: None,
                    },
                )
            });
            let j = match res {
                Ok(Ok((state, sum))) => {
                    if let Some(sum) = sum {
                        checksum = jbytes(sum.as_bytes());
                    }
                    json!({"state": dump::state_json(&state)})
                }
                Ok(Err(e)) => json!({"error": e.to_string()}),
                Err(p) => json!({"panic": p}),
            };
            match outcomes.iter_mut().find(|(_, o)| *o == j) {
                Some((ts, _)) => ts.push(n),
                None => outcomes.push((vec![n], j)),
            }
        }
        let results: Vec<Json> = outcomes
            .into_iter()
            .map(|(ts, mut j)| {
                j["threads"] = json!(ts);
                j
            })
            .collect();
        json!({"results": results, "checksum": checksum, "len": data.len()})
    });
}
