//! C28 executor: edit histories on a loaded gix_config::File.
//! case: {"text": [bytes], "ops": [{"op", "sec","hassub","sub","key","hasval","val","nsec","nhassub","nsub","idx","cmt"}]}
//! got:  {"load_ok", "steps": [ {ok, ser, reparse_ok, file, lookups} | {panic} ]}
//!   ok       the API call reported success (section / key found, Ok, Some)
//!   ser      File::to_bstring after the call
//!   file     {"front":[item], "secs":[{"name", "items":[item]}]} read back from `ser` with gix's own parser;
//!            item = {"t":"kv","key","hasval","val"} | {"t":"c","key":[],"hasval":false,"val": tag+text}
//!            (header name = lower(section) ["." subsection], key lower-cased, value normalised,
//!            a CR before the line feed is not part of a comment)
//!   lookups  in-memory reads after the call: for every name of `file` [{name, values}] via raw_values_by
//! A panic inside a call ends the history (the step is {"panic": msg}).
//! With "reload": true every call is made on a file freshly loaded from the text the previous call wrote.
use std::borrow::Cow;

use bstr::{BStr, BString, ByteSlice};
use gix_config::parse::{section::ValueName, Event, Events};
use vhlib::*;

fn item_kv(key: &[u8], hasval: bool, val: &[u8]) -> Json {
    json!({"t": "kv", "key": jbytes(&key.to_ascii_lowercase()), "hasval": hasval, "val": jbytes(val)})
}

fn comment_item(tag: u8, text: &[u8]) -> Json {
    let mut v = vec![tag];
    v.extend_from_slice(text);
    if v.last() == Some(&b'\r') {
        v.pop();
    }
    json!({"t": "c", "key": [], "hasval": false, "val": jbytes(&v)})
}

fn items_of(events: &[Event<'_>]) -> Vec<Json> {
    let mut out = Vec::new();
    let mut key: Option<Vec<u8>> = None;
    let mut sep = false;
    let mut partial: Vec<u8> = Vec::new();
    for e in events {
        match e {
            Event::SectionValueName(k) => {
                key = Some(k.as_ref().as_bytes().to_vec());
                sep = false;
                partial.clear();
            }
            Event::KeyValueSeparator => sep = true,
            Event::ValueNotDone(v) => partial.extend_from_slice(v),
            Event::Value(v) | Event::ValueDone(v) => {
                partial.extend_from_slice(v);
                if let Some(k) = key.take() {
                    let n = gix_config::value::normalize_bstr(partial.as_bstr());
                    out.push(item_kv(&k, sep, if sep { n.as_ref() } else { b"" }));
                }
                partial.clear();
            }
            Event::Comment(c) => out.push(comment_item(c.tag, c.text.as_ref())),
            _ => {}
        }
    }
    out
}

fn hname(name: &[u8], sub: Option<&[u8]>) -> Vec<u8> {
    let mut n = name.to_ascii_lowercase();
    if let Some(s) = sub {
        n.push(b'.');
        n.extend_from_slice(s);
    }
    n
}

fn file_view(ser: &[u8]) -> Option<Json> {
    let ev = Events::from_bytes(ser, None).ok()?;
    let front = items_of(&ev.frontmatter);
    let secs: Vec<Json> = ev
        .sections
        .iter()
        .map(|s| {
            json!({"name": jbytes(&hname(s.header.name(), s.header.subsection_name().map(|b| b.as_bytes()))),
                   "items": items_of(&s.events)})
        })
        .collect();
    Some(json!({"front": front, "secs": secs}))
}

fn opt_sub(o: &Json, has: &str, field: &str) -> Option<BString> {
    if jbool(&o[has]) {
        Some(bytes(&o[field]).into())
    } else {
        None
    }
}

fn s(o: &Json, f: &str) -> String {
    String::from_utf8(bytes(&o[f])).expect("ascii name")
}

fn apply(file: &mut gix_config::File<'static>, o: &Json) -> bool {
    let op = jstr(&o["op"]);
    let sec = s(o, "sec");
    let sub = opt_sub(o, "hassub", "sub");
    let subr: Option<&BStr> = sub.as_ref().map(|b| b.as_bstr());
    let key = s(o, "key");
    let val: BString = bytes(&o["val"]).into();
    let vname = || ValueName::try_from(key.clone()).expect("valid value name");
    match op {
        "set" => match file.section_mut(&sec, subr) {
            Ok(mut m) => {
                m.set(vname(), val.as_bstr());
                true
            }
            Err(_) => false,
        },
        "push" | "pushc" => match file.section_mut(&sec, subr) {
            Ok(mut m) => {
                let v = if jbool(&o["hasval"]) { Some(val.as_bstr()) } else { None };
                if op == "push" {
                    m.push(vname(), v);
                } else {
                    let c: BString = bytes(&o["cmt"]).into();
                    m.push_with_comment(vname(), v, c.as_bstr());
                }
                true
            }
            Err(_) => false,
        },
        "remove" => match file.section_mut(&sec, subr) {
            Ok(mut m) => m.remove(&key).is_some(),
            Err(_) => false,
        },
        "pop" => match file.section_mut(&sec, subr) {
            Ok(mut m) => m.pop().is_some(),
            Err(_) => false,
        },
        "set_raw" => file.set_raw_value_by(&sec, subr, key.clone(), val.as_bstr()).is_ok(),
        "set_existing" => file.set_existing_raw_value_by(&sec, subr, &key, val.as_bstr()).is_ok(),
        "value_delete" => match file.raw_value_mut_by(&sec, subr, &key) {
            Ok(mut v) => {
                v.delete();
                true
            }
            Err(_) => false,
        },
        "multi_set_all" => match file.raw_values_mut_by(&sec, subr, &key) {
            Ok(mut v) => {
                v.set_all(val.as_bstr());
                true
            }
            Err(_) => false,
        },
        "multi_delete" => match file.raw_values_mut_by(&sec, subr, &key) {
            Ok(mut v) => {
                let idx = jint(&o["idx"]) as usize;
                if idx < v.len() {
                    v.delete(idx);
                    true
                } else {
                    false
                }
            }
            Err(_) => false,
        },
        "new_section" => file.new_section(sec.clone(), sub.clone().map(Cow::Owned)).is_ok(),
        "remove_section" => file.remove_section(&sec, subr).is_some(),
        "rename_section" => {
            let nsub = opt_sub(o, "nhassub", "nsub");
            file.rename_section(&sec, subr, s(o, "nsec"), nsub.map(Cow::Owned)).is_ok()
        }
        other => panic!("unknown op {other}"),
    }
}

/// in-memory reads for every entry name of `view`
fn lookups(file: &gix_config::File<'static>, view: &Json) -> Json {
    let mut seen: Vec<Vec<u8>> = Vec::new();
    let mut out = Vec::new();
    for sct in view["secs"].as_array().into_iter().flatten() {
        let hn = bytes(&sct["name"]);
        let (secn, sub) = match hn.iter().position(|b| *b == b'.') {
            Some(p) => (hn[..p].to_vec(), Some(BString::from(hn[p + 1..].to_vec()))),
            None => (hn.clone(), None),
        };
        for it in sct["items"].as_array().into_iter().flatten() {
            if jstr(&it["t"]) != "kv" {
                continue;
            }
            let key = bytes(&it["key"]);
            let mut name = hn.clone();
            name.push(b'.');
            name.extend_from_slice(&key);
            if seen.contains(&name) {
                continue;
            }
            seen.push(name.clone());
            let secs = String::from_utf8(secn.clone()).expect("ascii");
            let keys = String::from_utf8(key).expect("ascii");
            let vals: Vec<Json> = match file.raw_values_by(&secs, sub.as_ref().map(|b| b.as_bstr()), &keys) {
                Ok(l) => l.iter().map(|v| jbytes(v.as_ref())).collect(),
                Err(_) => Vec::new(),
            };
            out.push(json!({"name": jbytes(&name), "values": vals}));
        }
    }
    Json::Array(out)
}

fn main() {
    run(|case| {
        let mut text = bytes(&case["text"]);
        let mut file = match gix_config::File::from_bytes_owned(&mut text, gix_config::file::Metadata::api(), Default::default()) {
            Ok(f) => f,
            Err(e) => return json!({"load_ok": false, "err": e.to_string(), "steps": []}),
        };
        let mut steps = Vec::new();
        for o in case["ops"].as_array().expect("ops") {
            let r = guarded(|| apply(&mut file, o));
            let ok = match r {
                Ok(ok) => ok,
                Err(msg) => {
                    steps.push(json!({"panic": msg}));
                    break;
                }
            };
            let ser = match guarded(|| file.to_bstring()) {
                Ok(s) => s,
                Err(msg) => {
                    steps.push(json!({"panic": format!("to_bstring: {msg}")}));
                    break;
                }
            };
            let view = file_view(&ser);
            let lk = match &view {
                Some(v) => guarded(|| lookups(&file, v)).unwrap_or_else(|m| json!({"panic": m})),
                None => Json::Array(vec![]),
            };
            steps.push(json!({"ok": ok, "ser": jbytes(&ser), "reparse_ok": view.is_some(),
                              "file": view.unwrap_or(json!({"front": [], "secs": []})), "lookups": lk}));
            // "reload": every call starts from a file freshly loaded from the text written by the previous one
            if case["reload"].as_bool().unwrap_or(false) {
                let mut t: Vec<u8> = ser.to_vec();
                match gix_config::File::from_bytes_owned(&mut t, gix_config::file::Metadata::api(), Default::default()) {
                    Ok(f) => file = f,
                    Err(_) => {
                        steps.push(json!({"stop": "written text cannot be loaded again"}));
                        break;
                    }
                }
            }
        }
        json!({"load_ok": true, "steps": steps})
    });
}
