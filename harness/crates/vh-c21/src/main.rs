//! C21 executor: reflog lines, forward and reverse reading.
//!
//! op "abs":   {"file":[bytes], "B":n}
//!             forward(file) and reverse(Cursor(file), buf of B bytes); every item is reported as
//!             {"ok": entry} | {"bad": [raw line bytes the parser was given]} | {"io": message}
//! op "line":  {"entry": {...}}  Line::write_to, LineRef::from_bytes (with and without newline)
//! op "store": {"git_dir": path, "name": full ref name, "append": [entry..] | null, "bs": [B..]}
//!             appends the entries through file::Store transactions (one per entry) when given,
//!             then reads the log file: raw bytes, Store::reflog_iter, Store::reflog_iter_rev with
//!             every buffer size, and the Platform of the reference (fixed 512 byte buffer, "B": 0).
use bstr::BString;
use gix_ref::file::ReferenceExt;
use gix_ref::file::log;
use gix_ref::transaction::{Change, LogChange, PreviousValue, RefEdit, RefLog};
use gix_ref::{file, FullName, Target};
use vhlib::*;

fn obs_sig(sig: &gix_actor::SignatureRef<'_>) -> (Json, Json, Json, Json, Json) {
    (
        jbytes(sig.name),
        jbytes(sig.email),
        jbytes(sig.time.seconds.to_string().as_bytes()),
        Json::from(match sig.time.sign {
            gix_date::time::Sign::Plus => 43,
            gix_date::time::Sign::Minus => 45,
        }),
        Json::from(sig.time.offset),
    )
}

fn obs_ref(l: &log::LineRef<'_>) -> Json {
    let (name, email, secs, sign, offset) = obs_sig(&l.signature);
    json!({"bad": false, "old": jbytes(l.previous_oid), "new": jbytes(l.new_oid), "name": name, "email": email,
           "secs": secs, "sign": sign, "offset": offset, "msg": jbytes(l.message)})
}

fn obs_line(l: &gix_ref::log::Line) -> Json {
    let (name, email, secs, sign, offset) = obs_sig(&l.signature.to_ref());
    json!({"bad": false, "old": jbytes(l.previous_oid.to_string().as_bytes()), "new": jbytes(l.new_oid.to_string().as_bytes()),
           "name": name, "email": email, "secs": secs, "sign": sign, "offset": offset, "msg": jbytes(&l.message)})
}

/// The decode error only displays its input: `In line N: "<escaped>" did not match ...`.
fn input_of_decode_error(text: &str) -> Vec<u8> {
    let start = text.find(": \"").map(|p| p + 3).unwrap_or(0);
    let end = text.rfind("\" did not match").unwrap_or(text.len());
    let s = &text[start..end.max(start)];
    let mut out = Vec::new();
    let mut it = s.chars().peekable();
    while let Some(c) = it.next() {
        if c != '\\' {
            let mut b = [0u8; 4];
            out.extend_from_slice(c.encode_utf8(&mut b).as_bytes());
            continue;
        }
        match it.next() {
            Some('n') => out.push(b'\n'),
            Some('r') => out.push(b'\r'),
            Some('t') => out.push(b'\t'),
            Some('0') => out.push(0),
            Some('\\') => out.push(b'\\'),
            Some('"') => out.push(b'"'),
            Some('\'') => out.push(b'\''),
            Some('x') => {
                let h: String = it.by_ref().take(2).collect();
                out.push(u8::from_str_radix(&h, 16).unwrap_or(b'?'));
            }
            Some('u') => {
                let _ = it.next();
                let h: String = it.by_ref().take_while(|c| *c != '}').collect();
                let ch = char::from_u32(u32::from_str_radix(&h, 16).unwrap_or(63)).unwrap_or('?');
                let mut b = [0u8; 4];
                out.extend_from_slice(ch.encode_utf8(&mut b).as_bytes());
            }
            Some(o) => {
                out.push(b'\\');
                let mut b = [0u8; 4];
                out.extend_from_slice(o.encode_utf8(&mut b).as_bytes());
            }
            None => out.push(b'\\'),
        }
    }
    out
}

fn fwd_items(file: &[u8]) -> Json {
    Json::Array(
        log::iter::forward(file)
            .map(|item| match item {
                Ok(l) => json!({"ok": obs_ref(&l)}),
                Err(e) => json!({"bad": jbytes(&input_of_decode_error(&e.to_string()))}),
            })
            .collect(),
    )
}

fn rev_items<F: std::io::Read + std::io::Seek>(it: log::iter::Reverse<'_, F>, limit: usize) -> (Json, bool) {
    let mut out = Vec::new();
    let mut err = false;
    for item in it.take(limit) {
        out.push(match item {
            Ok(l) => json!({"ok": obs_line(&l)}),
            Err(log::iter::reverse::Error::Decode(e)) => json!({"bad": jbytes(&input_of_decode_error(&e.to_string()))}),
            Err(log::iter::reverse::Error::Io(e)) => {
                err = true;
                json!({"io": e.to_string()})
            }
        });
    }
    (Json::Array(out), err)
}

fn abs_case(case: &Json) -> Json {
    let file = bytes(&case["file"]);
    let b = jint(&case["B"]) as usize;
    let mut buf = vec![0u8; b];
    let fwd = fwd_items(&file);
    let n = file.len() + 10;
    match log::iter::reverse(std::io::Cursor::new(&file), &mut buf) {
        Ok(it) => {
            let (rev, err) = rev_items(it, n);
            json!({"fwd": fwd, "rev": rev, "err": err})
        }
        Err(e) => json!({"fwd": fwd, "rev": [{"io": e.to_string()}], "err": true}),
    }
}

fn time_of(e: &Json) -> gix_date::Time {
    let secs: i64 = String::from_utf8(bytes(&e["secs"])).unwrap().parse().expect("secs");
    let tz = bytes(&e["tz"]);
    let d = |i: usize| (tz[i] - b'0') as i32;
    let mag = (d(1) * 10 + d(2)) * 3600 + (d(3) * 10 + d(4)) * 60;
    let sign = if tz[0] == b'-' { gix_date::time::Sign::Minus } else { gix_date::time::Sign::Plus };
    gix_date::Time { seconds: secs, offset: if tz[0] == b'-' { -mag } else { mag }, sign }
}

fn sig_of(e: &Json) -> gix_actor::Signature {
    gix_actor::Signature { name: BString::from(bytes(&e["name"])), email: BString::from(bytes(&e["email"])), time: time_of(e) }
}

fn oid_of(v: &Json) -> gix_hash::ObjectId {
    gix_hash::ObjectId::from_hex(&bytes(v)).expect("hex oid")
}

fn line_case(case: &Json) -> Json {
    let e = &case["entry"];
    let line = gix_ref::log::Line {
        previous_oid: oid_of(&e["old"]),
        new_oid: oid_of(&e["new"]),
        signature: sig_of(e),
        message: BString::from(bytes(&e["msg"])),
    };
    let mut written = Vec::new();
    if let Err(err) = line.write_to(&mut written) {
        return json!({"write_error": err.to_string()});
    }
    let p = |b: &[u8]| match log::LineRef::from_bytes(b) {
        Ok(l) => obs_ref(&l),
        Err(_) => json!({"bad": true}),
    };
    let without_nl = written.strip_suffix(b"\n").unwrap_or(&written);
    // the owned form must carry the same data as the borrowed one
    let owned = match log::LineRef::from_bytes(&written) {
        Ok(l) => obs_line(&l.to_owned()),
        Err(_) => json!({"bad": true}),
    };
    json!({"written": jbytes(&written), "parsed": p(without_nl), "parsed_nl": p(&written), "owned": owned})
}

fn store_case(case: &Json) -> Json {
    let git_dir = std::path::PathBuf::from(jstr(&case["git_dir"]));
    let name = jstr(&case["name"]);
    let store = file::Store::at(
        git_dir.clone(),
        gix_ref::store::init::Options { write_reflog: gix_ref::store::WriteReflog::Normal, ..Default::default() },
    );
    let mut appended = 0;
    if let Some(entries) = case["append"].as_array() {
        for e in entries {
            let edit = RefEdit {
                change: Change::Update {
                    log: LogChange { mode: RefLog::AndReference, force_create_reflog: false, message: BString::from(bytes(&e["msg"])) },
                    expected: PreviousValue::Any,
                    new: Target::Object(oid_of(&e["new"])),
                },
                name: FullName::try_from(name).expect("name"),
                deref: false,
            };
            let committer = sig_of(e);
            let tx = store
                .transaction()
                .prepare(vec![edit], gix_lock::acquire::Fail::Immediately, gix_lock::acquire::Fail::Immediately)
                .unwrap_or_else(|e| panic!("prepare: {e}"));
            match tx.commit(committer.to_ref()) {
                Ok(_) => appended += 1,
                Err(err) => return json!({"append_error": err.to_string(), "appended": appended}),
            }
        }
    }
    let path = git_dir.join("logs").join(name);
    let file = std::fs::read(&path).unwrap_or_default();
    let mut fbuf = Vec::new();
    let fwd = match store.reflog_iter(name, &mut fbuf) {
        Ok(Some(it)) => Json::Array(
            it.map(|item| match item {
                Ok(l) => json!({"ok": obs_ref(&l)}),
                Err(e) => json!({"bad": jbytes(&input_of_decode_error(&e.to_string()))}),
            })
            .collect(),
        ),
        Ok(None) => json!("absent"),
        Err(e) => json!({"error": e.to_string()}),
    };
    let limit = file.len() + 10;
    let mut revs = Vec::new();
    for b in case["bs"].as_array().expect("bs") {
        let b = jint(b) as usize;
        let mut buf = vec![0u8; b];
        let r = match store.reflog_iter_rev(name, &mut buf) {
            Ok(Some(it)) => {
                let (items, err) = rev_items(it, limit);
                json!({"B": b, "items": items, "err": err})
            }
            Ok(None) => json!({"B": b, "items": [], "err": false, "absent": true}),
            Err(e) => json!({"B": b, "items": [{"io": e.to_string()}], "err": true}),
        };
        revs.push(r);
    }
    // the platform of a found reference: fixed buffer of 512 bytes
    let platform = match store.try_find(name) {
        Ok(Some(r)) => {
            let mut p = r.log_iter(&store);
            let all: Json = match p.all() {
                Ok(Some(it)) => Json::Array(
                    it.map(|item| match item {
                        Ok(l) => json!({"ok": obs_ref(&l)}),
                        Err(e) => json!({"bad": jbytes(&input_of_decode_error(&e.to_string()))}),
                    })
                    .collect(),
                ),
                Ok(None) => json!("absent"),
                Err(e) => json!({"error": e.to_string()}),
            };
            let rev = match p.rev() {
                Ok(Some(it)) => {
                    let (items, err) = rev_items(it, limit);
                    json!({"B": 512, "items": items, "err": err})
                }
                Ok(None) => json!({"B": 512, "items": [], "err": false, "absent": true}),
                Err(e) => json!({"B": 512, "items": [{"io": e.to_string()}], "err": true}),
            };
            json!({"all": all, "rev": rev})
        }
        _ => Json::Null,
    };
    json!({"file": jbytes(&file), "fwd": fwd, "revs": revs, "platform": platform, "appended": appended})
}

fn main() {
    run(|case| match jstr(&case["op"]) {
        "abs" => abs_case(case),
        "line" => line_case(case),
        "store" => store_case(case),
        other => panic!("unknown op {other}"),
    });
}
