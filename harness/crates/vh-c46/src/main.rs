//! C46 executor: `gix_revision::merge_base` on materialised histories.
//! case: {"objects": <objects dir>, "cgraph": <info dir> | "", "reuse": bool,
//!        "groups": [[{"first": hex, "others": [hex..]}, ..], ..]}
//!   one group = the queries of one world; with "reuse" one `Graph` serves the whole group
//!   (flags must be cleared between calls), otherwise every query gets a fresh graph.
//! got: {"groups": [[{"none": bool, "bases": [hex..]} | {"error": text} | {"panic": text}, ..], ..]}
use gix_hash::ObjectId;
use vhlib::*;

fn oid(v: &Json) -> ObjectId {
    ObjectId::from_hex(jstr(v).as_bytes()).expect("hex id")
}

fn main() {
    run(|case| {
        let odb = gix_odb::at(jstr(&case["objects"])).expect("open object database");
        let cg = jstr(&case["cgraph"]);
        let cache = (!cg.is_empty())
            .then(|| gix_commitgraph::Graph::from_info_dir(std::path::Path::new(cg)).expect("commit-graph present"));
        let reuse = jbool(&case["reuse"]);
        let mut out_groups = Vec::new();
        for group in case["groups"].as_array().expect("groups") {
            let mut shared = gix_revision::Graph::new(&odb, cache.as_ref());
            let mut out = Vec::new();
            for q in group.as_array().expect("group") {
                let first = oid(&q["first"]);
                let others: Vec<ObjectId> = q["others"].as_array().expect("others").iter().map(oid).collect();
                let res = guarded(|| {
                    if reuse {
                        gix_revision::merge_base(first, &others, &mut shared)
                    } else {
                        let mut graph = gix_revision::Graph::new(&odb, cache.as_ref());
                        gix_revision::merge_base(first, &others, &mut graph)
                    }
                });
                out.push(match res {
                    Ok(Ok(Some(bases))) => {
                        json!({"none": false, "bases": bases.iter().map(|b| b.to_string()).collect::<Vec<_>>()})
                    }
                    Ok(Ok(None)) => json!({"none": true, "bases": []}),
                    Ok(Err(e)) => json!({"error": e.to_string()}),
                    Err(msg) => {
                        // the shared graph may be in an arbitrary state after a panic
                        shared = gix_revision::Graph::new(&odb, cache.as_ref());
                        json!({"panic": msg})
                    }
                });
            }
            out_groups.push(Json::Array(out));
        }
        json!({"groups": out_groups})
    });
}
