//! C44 executor: `gix_diff::tree` with the `Recorder`, and `gix_diff::tree_with_rewrites` without rewrite tracking.
//! case: {"objects": <objects dir>, "pairs": [[lhs tree hex, rhs tree hex], ..]}
//! got: {"pairs": [{"rec": [change..] | {"error"|"panic": text}, "twr": [change..] | {..}}, ..]}
//!   change = {"c": "add"|"del"|"mod", "path": text, "pmode": octal | "", "poid": hex | "", "mode": octal | "", "oid": hex | ""}
use gix_hash::ObjectId;
use gix_object::{FindExt, TreeRefIter};
use vhlib::*;

fn mode(m: gix_object::tree::EntryMode) -> String {
    format!("{:06o}", m.0)
}

fn main() {
    run(|case| {
        let odb = gix_odb::at(jstr(&case["objects"])).expect("open object database");
        let root = std::path::PathBuf::from(jstr(&case["objects"]));
        let mut out = Vec::new();
        let mut state = gix_diff::tree::State::default();
        for pair in case["pairs"].as_array().expect("pairs") {
            let lhs = ObjectId::from_hex(jstr(&pair[0]).as_bytes()).expect("hex");
            let rhs = ObjectId::from_hex(jstr(&pair[1]).as_bytes()).expect("hex");
            let (mut b1, mut b2) = (Vec::new(), Vec::new());
            odb.find_tree_iter(&lhs, &mut b1).expect("lhs tree present");
            odb.find_tree_iter(&rhs, &mut b2).expect("rhs tree present");
            let (lbytes, rbytes) = (b1, b2);
            let rec = guarded(|| {
                let mut recorder = gix_diff::tree::Recorder::default();
                match gix_diff::tree(
                    TreeRefIter::from_bytes(&lbytes),
                    TreeRefIter::from_bytes(&rbytes),
                    &mut state,
                    &odb,
                    &mut recorder,
                ) {
                    Ok(()) => Json::Array(
                        recorder
                            .records
                            .iter()
                            .map(|c| {
                                use gix_diff::tree::recorder::Change::*;
                                match c {
                                    Addition { entry_mode, oid, path, .. } => json!({"c": "add", "path": path.to_string(), "pmode": "", "poid": "", "mode": mode(*entry_mode), "oid": oid.to_string()}),
                                    Deletion { entry_mode, oid, path, .. } => json!({"c": "del", "path": path.to_string(), "pmode": mode(*entry_mode), "poid": oid.to_string(), "mode": "", "oid": ""}),
                                    Modification { previous_entry_mode, previous_oid, entry_mode, oid, path } => json!({"c": "mod", "path": path.to_string(), "pmode": mode(*previous_entry_mode), "poid": previous_oid.to_string(), "mode": mode(*entry_mode), "oid": oid.to_string()}),
                                }
                            })
                            .collect(),
                    ),
                    Err(e) => json!({"error": e.to_string()}),
                }
            });
            let twr = guarded(|| {
                let mut cache = gix_diff::blob::Platform::new(
                    Default::default(),
                    gix_diff::blob::Pipeline::new(Default::default(), Default::default(), Vec::new(), Default::default()),
                    Default::default(),
                    gix_worktree::Stack::new(
                        &root,
                        gix_worktree::stack::State::AttributesStack(gix_worktree::stack::state::Attributes::default()),
                        Default::default(),
                        Vec::new(),
                        Vec::new(),
                    ),
                );
                let mut changes = Vec::new();
                let mut st = gix_diff::tree::State::default();
                let res = gix_diff::tree_with_rewrites(
                    TreeRefIter::from_bytes(&lbytes),
                    TreeRefIter::from_bytes(&rbytes),
                    &mut cache,
                    &mut st,
                    &odb,
                    |c| -> Result<_, std::convert::Infallible> {
                        use gix_diff::tree_with_rewrites::ChangeRef::*;
                        changes.push(match c {
                            Addition { location, entry_mode, id, .. } => json!({"c": "add", "path": location.to_string(), "pmode": "", "poid": "", "mode": mode(entry_mode), "oid": id.to_string()}),
                            Deletion { location, entry_mode, id, .. } => json!({"c": "del", "path": location.to_string(), "pmode": mode(entry_mode), "poid": id.to_string(), "mode": "", "oid": ""}),
                            Modification { location, previous_entry_mode, previous_id, entry_mode, id } => json!({"c": "mod", "path": location.to_string(), "pmode": mode(previous_entry_mode), "poid": previous_id.to_string(), "mode": mode(entry_mode), "oid": id.to_string()}),
                            Rewrite { location, .. } => json!({"c": "rewrite", "path": location.to_string(), "pmode": "", "poid": "", "mode": "", "oid": ""}),
                        });
                        Ok(Default::default())
                    },
                    gix_diff::tree_with_rewrites::Options {
                        location: Some(gix_diff::tree::recorder::Location::Path),
                        rewrites: None,
                    },
                );
                match res {
                    Ok(_) => Json::Array(changes),
                    Err(e) => json!({"error": e.to_string()}),
                }
            });
            let wrap = |r: Result<Json, String>| match r {
                Ok(v) => v,
                Err(msg) => json!({"panic": msg}),
            };
            out.push(json!({"rec": wrap(rec), "twr": wrap(twr)}));
        }
        json!({"pairs": out})
    });
}
