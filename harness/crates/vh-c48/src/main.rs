//! C48 executor: revision specifications.
//! case: {"repo": "<path>", "spec": "<text>"}
//! got:  {"ok": true, "kind": "rev"|"not"|"range"|"merge"|"parents"|"noparents", "a": hex, "b": hex|""}
//!     | {"ok": false, "err": text}
//! (gix::revision::Spec as returned by Repository::rev_parse, default options; no interpretation)
use std::cell::RefCell;
use std::collections::HashMap;
use vhlib::*;

fn main() {
    let repos: RefCell<HashMap<String, gix::Repository>> = RefCell::new(HashMap::new());
    run(|case| {
        let path = jstr(&case["repo"]).to_string();
        let mut map = repos.borrow_mut();
        let repo = map.entry(path.clone()).or_insert_with(|| gix::open(&path).expect("open repository"));
        match repo.rev_parse(jstr(&case["spec"])) {
            Ok(spec) => {
                use gix::revision::plumbing::Spec::*;
                let (kind, a, b) = match spec.detach() {
                    Include(a) => ("rev", a.to_string(), String::new()),
                    Exclude(a) => ("not", a.to_string(), String::new()),
                    Range { from, to } => ("range", from.to_string(), to.to_string()),
                    Merge { theirs, ours } => ("merge", theirs.to_string(), ours.to_string()),
                    IncludeOnlyParents(a) => ("parents", a.to_string(), String::new()),
                    ExcludeParents(a) => ("noparents", a.to_string(), String::new()),
                };
                json!({"ok": true, "kind": kind, "a": a, "b": b})
            }
            Err(e) => json!({"ok": false, "err": e.to_string().chars().take(300).collect::<String>()}),
        }
    });
}
