//! C57 executor: ANSI-C unquoting.
//! case: {"text": [bytes]}  ->  got: {ok, out, consumed, borrowed, err}
use bstr::ByteSlice;
use std::borrow::Cow;
use vhlib::*;

fn main() {
    run(|case| {
        let text = bytes(&case["text"]);
        match gix_quote::ansi_c::undo(text.as_bstr()) {
            Ok((out, consumed)) => json!({
                "ok": true,
                "out": jbytes(out.as_ref()),
                "consumed": consumed,
                "borrowed": matches!(out, Cow::Borrowed(_)),
                "err": "",
            }),
            Err(e) => json!({"ok": false, "out": [], "consumed": 0, "borrowed": false, "err": e.to_string()}),
        }
    });
}
