//! C15 executor: reference-name validation and sanitising.
//! case: {"input": [bytes]}  ->  got: {partial, full, tag, sanitized | sanitize_panic, sanitized_ok, fullname, partialname}
use bstr::ByteSlice;
use vhlib::*;

fn main() {
    run(|case| {
        let input = bytes(&case["input"]);
        let s = input.as_bstr();
        let partial = gix_validate::reference::name_partial(s).is_ok();
        let full = gix_validate::reference::name(s).is_ok();
        let tag = gix_validate::tag::name(s).is_ok();
        // the typed names of gix-ref must agree with the validators they wrap
        let fullname = gix_ref::FullName::try_from(s.to_owned()).is_ok();
        let partialname = gix_ref::PartialName::try_from(s.to_owned()).is_ok();
        let mut out = json!({"partial": partial, "full": full, "tag": tag, "fullname": fullname, "partialname": partialname});
        match guarded(|| gix_validate::reference::name_partial_or_sanitize(s)) {
            Ok(san) => {
                out["sanitized"] = jbytes(&san);
                out["sanitized_ok"] = Json::from(gix_validate::reference::name_partial(san.as_bstr()).is_ok());
            }
            Err(msg) => {
                out["sanitize_panic"] = Json::from(msg);
            }
        }
        out
    });
}
