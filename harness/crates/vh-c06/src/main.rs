//! C06 executor: every listed parser entry point on arbitrary bytes, under catch_unwind and a deadline.
//!
//! case: {"ep": name, "input": [bytes]}
//! got:  {"outcome": "value" | "error" | "panic" | "hang", "detail": str, ...}   (refname: + partial/full/tag/sanitized)
//! "value"/"error" is the result of the primary call of the entry point; the secondary calls made on the same
//! bytes (iterators, alternative modes) only have to return.  No verdicts here.
use bstr::{BStr, ByteSlice};
use std::io::Read;
use vhlib::*;

type R = Result<String, String>;

fn show<T, E: std::fmt::Display>(r: Result<T, E>, what: impl FnOnce(&T) -> String) -> R {
    match r {
        Ok(v) => Ok(what(&v)),
        Err(e) => Err(e.to_string().chars().take(120).collect()),
    }
}

struct AcceptAll;
struct RejectAll;
macro_rules! delegate {
    ($t:ty, $v:expr) => {
        impl gix_revision::spec::parse::delegate::Revision for $t {
            fn find_ref(&mut self, _: &BStr) -> Option<()> { $v }
            fn disambiguate_prefix(&mut self, _: gix_hash::Prefix, _: Option<gix_revision::spec::parse::delegate::PrefixHint<'_>>) -> Option<()> { $v }
            fn reflog(&mut self, _: gix_revision::spec::parse::delegate::ReflogLookup) -> Option<()> { $v }
            fn nth_checked_out_branch(&mut self, _: usize) -> Option<()> { $v }
            fn sibling_branch(&mut self, _: gix_revision::spec::parse::delegate::SiblingBranch) -> Option<()> { $v }
        }
        impl gix_revision::spec::parse::delegate::Kind for $t {
            fn kind(&mut self, _: gix_revision::spec::Kind) -> Option<()> { $v }
        }
        impl gix_revision::spec::parse::delegate::Navigate for $t {
            fn traverse(&mut self, _: gix_revision::spec::parse::delegate::Traversal) -> Option<()> { $v }
            fn peel_until(&mut self, _: gix_revision::spec::parse::delegate::PeelTo<'_>) -> Option<()> { $v }
            fn find(&mut self, _: &BStr, _: bool) -> Option<()> { $v }
            fn index_lookup(&mut self, _: &BStr, _: u8) -> Option<()> { $v }
        }
        impl gix_revision::spec::parse::Delegate for $t {
            fn done(&mut self) {}
        }
    };
}
delegate!(AcceptAll, Some(()));
delegate!(RejectAll, None);

fn scratch_file(tag: &str, data: &[u8]) -> std::path::PathBuf {
    let dir = std::path::PathBuf::from(std::env::var("VERIF_WORK").expect("VERIF_WORK"));
    let p = dir.join(format!("c06-{}-{}-{:?}.bin", tag, std::process::id(), std::thread::current().id()));
    std::fs::write(&p, data).expect("write scratch");
    p
}

fn pkt_reader(data: &[u8]) -> gix_packetline::StreamingPeekableIter<std::io::Cursor<Vec<u8>>> {
    gix_packetline::StreamingPeekableIter::new(std::io::Cursor::new(data.to_vec()), &[gix_packetline::PacketLineRef::Flush], false)
}

fn exec(ep: &str, data: &[u8], extra: &mut Json) -> R {
    match ep {
        "object.commit" | "object.tree" | "object.tag" | "object.blob" => {
            let kind = match ep {
                "object.commit" => gix_object::Kind::Commit,
                "object.tree" => gix_object::Kind::Tree,
                "object.tag" => gix_object::Kind::Tag,
                _ => gix_object::Kind::Blob,
            };
            let _ = gix_object::CommitRefIter::from_bytes(data).count();
            let _ = gix_object::TagRefIter::from_bytes(data).count();
            let _ = gix_object::TreeRefIter::from_bytes(data).count();
            let _ = gix_object::CommitRefIter::from_bytes(data).tree_id();
            let _ = gix_object::CommitRefIter::from_bytes(data).signatures().count();
            let _ = gix_object::TagRefIter::from_bytes(data).target_id();
            let r = gix_object::ObjectRef::from_bytes(kind, data);
            if let Ok(o) = &r {
                let _owned = o.clone().into_owned();
            }
            show(r, |o| format!("{:?}", o.kind()))
        }
        "object.loose" => {
            let _ = gix_object::decode::loose_header(data);
            show(gix_object::ObjectRef::from_loose(data), |o| format!("{:?}", o.kind()))
        }
        "packed-refs" => {
            if let Ok(it) = gix_ref::packed::Iter::new(data) {
                let _ = it.count();
            }
            let r = gix_ref::packed::Buffer::from_bytes(data);
            if let Ok(b) = &r {
                if let Ok(it) = b.iter() {
                    let _ = it.count();
                }
                for name in ["refs/heads/main", "refs/tags/v1", "HEAD", "refs/heads/a", "refs/zz"] {
                    let _ = b.try_find(name);
                }
                if let Ok(it) = b.iter_prefixed("refs/heads/".into()) {
                    let _ = it.count();
                }
            }
            show(r, |_| "buffer".into())
        }
        "loose-ref" => {
            let name: gix_ref::FullName = "refs/heads/x".try_into().expect("valid");
            show(gix_ref::file::loose::Reference::try_from_path(name, data), |r| format!("{:?}", r.target).chars().take(60).collect())
        }
        "reflog" => {
            let _ = gix_ref::file::log::iter::forward(data).count();
            for bufsize in [16usize, 64, 1024] {
                let mut buf = vec![0u8; bufsize];
                if let Ok(it) = gix_ref::file::log::iter::reverse(std::io::Cursor::new(data), &mut buf) {
                    let _ = it.take(10_000).count();
                }
            }
            let first = data.lines().next().unwrap_or_default();
            show(gix_ref::file::log::LineRef::from_bytes(first), |l| format!("{:?}", l.message).chars().take(40).collect())
        }
        "index" => {
            let opts = |threads| gix_index::decode::Options { thread_limit: Some(threads), min_extension_block_in_bytes_for_threading: 0, expected_checksum: None };
            let _ = gix_index::State::from_bytes(data, filetime::FileTime::from_unix_time(1, 0), gix_hash::Kind::Sha1, opts(3));
            show(
                gix_index::State::from_bytes(data, filetime::FileTime::from_unix_time(1, 0), gix_hash::Kind::Sha1, opts(1)),
                |(s, _)| format!("{} entries v{:?}", s.entries().len(), s.version()),
            )
        }
        "ewah" => {
            let r = gix_bitmap::ewah::decode(data);
            if let Ok((v, _rest)) = &r {
                // a consumer that maps bits into a table of num_bits() entries stops at the first index outside it
                let limit = v.num_bits().saturating_add(64);
                let mut n = 0usize;
                let _ = v.for_each_set_bit(|i| {
                    n += 1;
                    (i < limit).then_some(())
                });
                extra["bits"] = json!(n);
            }
            show(r, |(v, rest)| format!("{} bits, {} left", v.num_bits(), rest.len()))
        }
        "config" => {
            let _ = gix_config::File::from_bytes_no_includes(data, gix_config::file::Metadata::api(), Default::default());
            show(gix_config::parse::Events::from_bytes(data, None), |e| format!("{} events", e.frontmatter.len() + e.sections.len()))
        }
        "pktline" => {
            let _ = gix_packetline::decode::all_at_once(data);
            let mut rd = pkt_reader(data);
            let mut n = 0;
            while let Some(l) = rd.read_line() {
                n += 1;
                if n > 10_000 || !matches!(l, Ok(Ok(_))) {
                    break;
                }
            }
            let mut rd = pkt_reader(data);
            let mut sink = Vec::new();
            let _ = rd.as_read_with_sidebands(|_, _| gix_packetline::read::ProgressAction::Continue).read_to_end(&mut sink);
            let mut rd = pkt_reader(data);
            let _ = rd.peek_line().map(|l| l.map(|l| l.map(|_| ())));
            let _ = rd.read_line().map(|l| l.map(|l| l.map(|_| ())));
            show(gix_packetline::decode::streaming(data), |s| match s {
                gix_packetline::decode::Stream::Complete { bytes_consumed, .. } => format!("complete {bytes_consumed}"),
                gix_packetline::decode::Stream::Incomplete { bytes_needed } => format!("incomplete {bytes_needed}"),
            })
        }
        "advert.v1" => {
            let mut rd = pkt_reader(data);
            let out = gix_transport::client::Capabilities::from_lines_with_version_detection(&mut rd);
            match out {
                Err(e) => Err(e.to_string().chars().take(120).collect()),
                Ok(outcome) => {
                    let caps = outcome.capabilities;
                    let _ = caps.iter().map(|c| (c.name().len(), c.values().map(Iterator::count))).count();
                    match outcome.refs {
                        Some(mut refs) => show(
                            gix_protocol::handshake::refs::from_v1_refs_received_as_part_of_handshake_and_capabilities(&mut *refs, caps.iter()),
                            |(r, s)| format!("{} refs {} shallow", r.len(), s.len()),
                        ),
                        None => Ok("v2 capabilities".into()),
                    }
                }
            }
        }
        "advert.v2" => {
            let mut rd = pkt_reader(data);
            let mut lines = rd.as_read();
            show(gix_protocol::handshake::refs::from_v2_refs(&mut lines), |r| format!("{} refs", r.len()))
        }
        "fetch.v1" | "fetch.v2" => {
            let proto = if ep == "fetch.v1" { gix_transport::Protocol::V1 } else { gix_transport::Protocol::V2 };
            for (pack, nego) in [(true, true), (false, false)] {
                let mut rd = pkt_reader(data);
                let mut lines = rd.as_read_without_sidebands();
                let _ = gix_protocol::fetch::Response::from_line_reader(proto, &mut lines, pack, nego);
            }
            let mut rd = pkt_reader(data);
            let mut lines = rd.as_read_without_sidebands();
            show(gix_protocol::fetch::Response::from_line_reader(proto, &mut lines, true, false), |r| {
                format!("acks {} shallow {} pack {}", r.acknowledgements().len(), r.shallow_updates().len(), r.has_pack())
            })
        }
        "url" => show(gix_url::parse(data.as_bstr()), |u| {
            let _ = u.to_bstring();
            format!("{:?}", u.scheme)
        }),
        "refspec" => {
            let _ = gix_refspec::parse(data.as_bstr(), gix_refspec::parse::Operation::Push).map(|s| s.to_owned());
            show(gix_refspec::parse(data.as_bstr(), gix_refspec::parse::Operation::Fetch), |s| format!("{:?}", s.to_owned()).chars().take(60).collect())
        }
        "revspec" => {
            let _ = gix_revision::spec::parse(data.as_bstr(), &mut RejectAll);
            show(gix_revision::spec::parse(data.as_bstr(), &mut AcceptAll), |_| "parsed".into())
        }
        "pathspec" => {
            let lit = gix_pathspec::Defaults { literal: true, ..Default::default() };
            let _ = gix_pathspec::parse(data, lit);
            show(gix_pathspec::parse(data, Default::default()), |p| format!("{:?}", p.signature))
        }
        "attributes" => {
            let mut errs = 0;
            let mut n = 0;
            for l in gix_attributes::parse(data) {
                match l {
                    Ok((_kind, assignments, _line)) => {
                        n += 1;
                        for a in assignments {
                            if a.is_err() {
                                errs += 1;
                            }
                        }
                    }
                    Err(_) => errs += 1,
                }
            }
            if errs > 0 { Err(format!("{errs} bad lines/assignments")) } else { Ok(format!("{n} lines")) }
        }
        "ignore" => Ok(format!("{} patterns", gix_ignore::parse(data).count())),
        "mailmap" => {
            let s = gix_mailmap::Snapshot::from_bytes(data);
            let _ = s.entries().len();
            let errs = gix_mailmap::parse(data).filter(Result::is_err).count();
            if errs > 0 { Err(format!("{errs} bad lines")) } else { Ok("ok".into()) }
        }
        "date" => {
            let text = String::from_utf8_lossy(data);
            let now = std::time::UNIX_EPOCH + std::time::Duration::from_secs(1_700_000_000);
            let _ = gix_date::parse(&text, None);
            show(gix_date::parse(&text, Some(now)), |t| format!("{} {}", t.seconds, t.offset))
        }
        "quote" => show(gix_quote::ansi_c::undo(data.as_bstr()), |(s, n)| format!("{} bytes, consumed {}", s.len(), n)),
        "credentials" => show(gix_credentials::protocol::Context::from_bytes(data), |c| {
            let mut out = Vec::new();
            let _ = c.write_to(&mut out);
            format!("{:?}", c.protocol)
        }),
        "commitgraph" => {
            let p = scratch_file("cg", data);
            let r = gix_commitgraph::File::at(&p);
            let res = show(r, |f| format!("{} commits, {} base graphs", f.num_commits(), f.base_graph_count()));
            let _ = std::fs::remove_file(&p);
            res
        }
        "midx" => {
            let p = scratch_file("midx", data);
            let r = gix_pack::multi_index::File::at(&p);
            let res = show(r, |f| format!("{} objects, {} indices", f.num_objects(), f.num_indices()));
            let _ = std::fs::remove_file(&p);
            res
        }
        "refname" => {
            let s = data.as_bstr();
            extra["partial"] = json!(gix_validate::reference::name_partial(s).is_ok());
            extra["full"] = json!(gix_validate::reference::name(s).is_ok());
            extra["tag"] = json!(gix_validate::tag::name(s).is_ok());
            let san = gix_validate::reference::name_partial_or_sanitize(s);
            extra["sanitized"] = jbytes(&san);
            extra["sanitized_ok"] = json!(gix_validate::reference::name_partial(san.as_bstr()).is_ok());
            show(gix_validate::reference::name(s), |_| "valid".into())
        }
        other => panic!("unknown entry point {other}"),
    }
}

fn main() {
    // extreme length prefixes must produce an error, not an allocation of that size: beyond the limit the
    // allocator fails and the process aborts (recorded as an abort of the case by the driver)
    let lim = libc::rlimit { rlim_cur: 4 << 30, rlim_max: 4 << 30 };
    // SAFETY: plain syscall with a valid pointer
    if std::env::var_os("VH_NO_RLIMIT").is_none() {
        unsafe {
            libc::setrlimit(libc::RLIMIT_AS, &lim);
        }
    }
    let deadline = std::time::Duration::from_millis(
        std::env::var("VH_DEADLINE_MS").ok().and_then(|s| s.parse().ok()).unwrap_or(10_000),
    );
    run(move |case| {
        let ep = jstr(&case["ep"]).to_string();
        let data = bytes(&case["input"]);
        let (tx, rx) = std::sync::mpsc::channel();
        // generous stack: deep recursion on nested input is reported as itself (abort), not masked by a small thread stack
        let handle = std::thread::Builder::new()
            .stack_size(64 << 20)
            .spawn(move || {
                let mut extra = json!({});
                let r = guarded(|| exec(&ep, &data, &mut extra));
                let _ = tx.send((r, extra));
            })
            .expect("spawn");
        match rx.recv_timeout(deadline) {
            Ok((r, mut extra)) => {
                let _ = handle.join();
                let (outcome, detail) = match r {
                    Ok(Ok(v)) => ("value", v),
                    Ok(Err(e)) => ("error", e),
                    Err(p) => ("panic", p),
                };
                extra["outcome"] = json!(outcome);
                extra["detail"] = json!(detail);
                extra
            }
            // the thread is left behind; it cannot be cancelled
            Err(_) => json!({"outcome": "hang", "detail": format!("no result within {deadline:?}")}),
        }
    });
}
