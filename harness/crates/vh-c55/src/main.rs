//! C55 executor: worktree stream and archives of a git-made tree.
//!
//! case: {"objects": dir, "tree": hex, "prefix": str, "reads": [n..], "via": "direct"|"reread", "src_reads": [n>=1..],
//!        "extras": [{"path","kind","id": hex,"src": "mem"|"path"|"null","file": path}], "out": path-prefix}
//! got:  {"entries": [{"path","kind","id","declared","len"}], "stream_err"?, "tar_err"?, "zip_err"?}
//! files: <out>.entries (contents read, concatenated), <out>.tar, <out>.zip
use std::io::Read;
use vhlib::*;

struct Chunked {
    data: Vec<u8>,
    pos: usize,
    sizes: Vec<usize>,
    i: usize,
}
impl Read for Chunked {
    fn read(&mut self, out: &mut [u8]) -> std::io::Result<usize> {
        let n = self.sizes[self.i % self.sizes.len()].min(out.len()).min(self.data.len() - self.pos);
        self.i += 1;
        out[..n].copy_from_slice(&self.data[self.pos..self.pos + n]);
        self.pos += n;
        Ok(n)
    }
}

fn usizes(v: &Json) -> Vec<usize> {
    v.as_array().expect("array").iter().map(|x| x.as_u64().expect("size") as usize).collect()
}

fn kind_of(s: &str) -> gix_object::tree::EntryKind {
    use gix_object::tree::EntryKind::*;
    match s {
        "blob" => Blob,
        "exe" => BlobExecutable,
        "link" => Link,
        "tree" => Tree,
        "commit" => Commit,
        other => panic!("kind {other}"),
    }
}

fn kind_name(m: gix_object::tree::EntryMode) -> &'static str {
    use gix_object::tree::EntryKind::*;
    match m.kind() {
        Blob => "blob",
        BlobExecutable => "exe",
        Link => "link",
        Tree => "tree",
        Commit => "commit",
    }
}

fn open_stream(case: &Json) -> gix_worktree_stream::Stream {
    let odb = gix_odb::at(jstr(&case["objects"])).expect("odb").into_arc().expect("arc");
    let tree = gix_hash::ObjectId::from_hex(jstr(&case["tree"]).as_bytes()).expect("tree id");
    let mut stream = gix_worktree_stream::from_tree(
        tree,
        odb,
        gix_filter::Pipeline::new(Default::default(), Default::default()),
        |_path, _mode, _attrs| Ok::<_, std::convert::Infallible>(()),
    );
    for x in case["extras"].as_array().expect("extras") {
        let source = match jstr(&x["src"]) {
            "mem" => gix_worktree_stream::entry::Source::Memory(std::fs::read(jstr(&x["file"])).expect("content file")),
            "path" => gix_worktree_stream::entry::Source::Path(jstr(&x["file"]).into()),
            "null" => gix_worktree_stream::entry::Source::Null,
            other => panic!("src {other}"),
        };
        stream.add_entry(gix_worktree_stream::AdditionalEntry {
            id: gix_hash::ObjectId::from_hex(jstr(&x["id"]).as_bytes()).expect("id"),
            mode: kind_of(jstr(&x["kind"])).into(),
            relative_path: jstr(&x["path"]).into(),
            source,
        });
    }
    stream
}

fn main() {
    // A desynchronised stream makes the reader allocate whatever length it finds on the wire: keep that
    // from eating the (shared) machine - beyond the limit `try_reserve` fails and the run reports an error.
    let lim = libc::rlimit { rlim_cur: 3 << 30, rlim_max: 3 << 30 };
    // SAFETY: plain syscall with a valid pointer
    unsafe {
        libc::setrlimit(libc::RLIMIT_AS, &lim);
    }
    run(|case| {
        let out_prefix = jstr(&case["out"]).to_string();
        let reads = usizes(&case["reads"]);
        let mut out = json!({});

        // ---- 1. the stream, entry by entry
        let mut stream = open_stream(case);
        if jstr(&case["via"]) == "reread" {
            let mut ser = Vec::new();
            stream.into_read().read_to_end(&mut ser).expect("serialise");
            out["serialised_len"] = json!(ser.len());
            stream = gix_worktree_stream::Stream::from_read(Chunked { data: ser, pos: 0, sizes: usizes(&case["src_reads"]), i: 0 });
        }
        let mut contents = Vec::new();
        let mut entries = Vec::new();
        let mut k = 0usize;
        loop {
            let mut entry = match stream.next_entry() {
                Ok(Some(e)) => e,
                Ok(None) => break,
                Err(e) => {
                    out["stream_err"] = json!(e.to_string());
                    break;
                }
            };
            let declared = entry.bytes_remaining().map(|n| n as i64).unwrap_or(-1);
            let start = contents.len();
            let mut err = None;
            loop {
                let b = reads[k % reads.len()];
                k += 1;
                let mut buf = vec![0u8; b];
                match entry.read(&mut buf) {
                    Ok(n) => {
                        contents.extend_from_slice(&buf[..n]);
                        if n == 0 && b > 0 {
                            break;
                        }
                    }
                    Err(e) => {
                        err = Some(e.to_string());
                        break;
                    }
                }
            }
            entries.push(json!({"path": String::from_utf8_lossy(entry.relative_path()).into_owned(), "kind": kind_name(entry.mode),
                                "id": entry.id.to_string(), "declared": declared, "len": contents.len() - start}));
            if let Some(e) = err {
                out["stream_err"] = json!(e);
                break;
            }
        }
        out["entries"] = Json::Array(entries);
        std::fs::write(format!("{out_prefix}.entries"), &contents).expect("write entries");

        // ---- 2. tar
        let prefix = jstr(&case["prefix"]);
        let opts = |format| gix_archive::Options {
            format,
            tree_prefix: (!prefix.is_empty()).then(|| prefix.into()),
            modification_time: 1820000000,
        };
        let mut stream = open_stream(case);
        let mut tar = Vec::new();
        if let Err(e) = gix_archive::write_stream(&mut stream, gix_worktree_stream::Stream::next_entry, &mut tar, opts(gix_archive::Format::Tar)) {
            out["tar_err"] = json!(e.to_string());
        }
        std::fs::write(format!("{out_prefix}.tar"), &tar).expect("write tar");

        // ---- 3. zip
        let mut stream = open_stream(case);
        let mut zip = Vec::new();
        if let Err(e) = gix_archive::write_stream_seek(
            &mut stream,
            gix_worktree_stream::Stream::next_entry,
            std::io::Cursor::new(&mut zip),
            opts(gix_archive::Format::Zip { compression_level: Some(1) }),
        ) {
            out["zip_err"] = json!(e.to_string());
        }
        std::fs::write(format!("{out_prefix}.zip"), &zip).expect("write zip");
        out
    });
}
