//! C53 executor: mailmap resolution.
//! case: {"mailmap": [bytes], "ids": [{"name": [bytes], "email": [bytes]}..]}
//! got:  {"entries": n, "res": [{"name": [bytes], "email": [bytes], "mapped": bool}..]}
use bstr::ByteSlice;
use vhlib::*;

fn main() {
    run(|case| {
        let mm = bytes(&case["mailmap"]);
        let snapshot = gix_mailmap::Snapshot::from_bytes(&mm);
        let mut res = Vec::new();
        for id in case["ids"].as_array().expect("ids") {
            let name = bytes(&id["name"]);
            let email = bytes(&id["email"]);
            let sig = gix_actor::SignatureRef {
                name: name.as_bstr(),
                email: email.as_bstr(),
                time: gix_date::Time::new(0, 0),
            };
            let mapped = snapshot.try_resolve(sig).is_some();
            let r = snapshot.resolve(sig);
            let cow = snapshot.resolve_cow(sig);
            res.push(json!({"name": jbytes(&r.name), "email": jbytes(&r.email), "mapped": mapped,
                            "cow_same": cow.name.as_ref() == r.name.as_bstr() && cow.email.as_ref() == r.email.as_bstr()}));
        }
        json!({"entries": snapshot.entries().len(), "res": res})
    });
}
