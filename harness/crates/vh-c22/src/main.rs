//! C22 executor: lock files.
//! op "name":   {"name": bytes, "nested": bool} - one resource with an arbitrary byte-string file name
//!              got: lock_name, resource_name (file names as bytes), listings after acquire / commit / drop, contents
//! op "calls":  {"calls": [{p, op: acquire|write|commit|drop, r: "top"|"nested"}]} - API calls executed one after the other
//!              got: per call {outcome, state: {content: {top, nested}, locks: [..], dir: bool}}
//! op "stress": {"threads": n, "iters": k, "seed": s} - free running threads incrementing a counter under the lock
//!              got: {"events": [{seq, t, ev: "acquired"|"committing"|"dropping"}], "final": counter, "commits": n, "leftover": [..]}
use std::ffi::OsString;
use std::io::Write;
use std::os::unix::ffi::{OsStrExt, OsStringExt};
use std::path::{Path, PathBuf};
use std::sync::atomic::{AtomicU64, Ordering};
use vhlib::*;

fn scratch(tag: &str) -> PathBuf {
    let work = PathBuf::from(std::env::var("VERIF_WORK").expect("VERIF_WORK"));
    let dir = work.join(format!("c22-{}-{}", tag, std::process::id()));
    let _ = std::fs::remove_dir_all(&dir);
    std::fs::create_dir_all(&dir).unwrap();
    dir
}

fn listing(dir: &Path) -> Json {
    fn walk(base: &Path, dir: &Path, out: &mut Vec<Vec<u8>>) {
        if let Ok(rd) = std::fs::read_dir(dir) {
            for e in rd.flatten() {
                let p = e.path();
                let rel = p.strip_prefix(base).unwrap().as_os_str().as_bytes().to_vec();
                if p.is_dir() {
                    let mut d = rel.clone();
                    d.push(b'/');
                    out.push(d);
                    walk(base, &p, out);
                } else {
                    out.push(rel);
                }
            }
        }
    }
    let mut v = Vec::new();
    walk(dir, dir, &mut v);
    v.sort();
    Json::Array(v.iter().map(|b| jbytes(b)).collect())
}

fn file_name_bytes(p: &Path) -> Json {
    jbytes(p.file_name().map(|n| n.as_bytes()).unwrap_or_default())
}

fn name_case(case: &Json) -> Json {
    let root = scratch("name");
    let name = OsString::from_vec(bytes(&case["name"]));
    let parent = if jbool(&case["nested"]) { root.join("sub") } else { root.clone() };
    // the same boundary directory, spelled differently (the boundary must be recognised whatever its spelling)
    let boundary = match case["bstyle"].as_u64().unwrap_or(0) {
        1 => PathBuf::from(format!("{}/", root.display())),
        2 => root.join("."),
        3 => PathBuf::from(format!("{}//", root.display())),
        _ => root.clone(),
    };
    let resource = parent.join(&name);
    let mut out = Map::new();
    // 1. update an existing resource
    std::fs::create_dir_all(&parent).unwrap();
    std::fs::write(&resource, b"old").unwrap();
    match gix_lock::File::acquire_to_update_resource(&resource, gix_lock::acquire::Fail::Immediately, Some(boundary.clone())) {
        Ok(mut lock) => {
            out.insert("lock_name".into(), file_name_bytes(lock.lock_path()));
            out.insert("lock_parent_ok".into(), Json::from(lock.lock_path().parent() == Some(parent.as_path())));
            let rp = guarded(|| lock.resource_path());
            match rp {
                Ok(rp) => {
                    out.insert("resource_name".into(), file_name_bytes(&rp));
                    out.insert("resource_path_ok".into(), Json::from(rp == resource));
                }
                Err(msg) => {
                    out.insert("resource_path_panic".into(), Json::from(msg));
                }
            }
            out.insert("after_acquire".into(), listing(&root));
            // a second acquisition must fail while the first is held
            let second = gix_lock::File::acquire_to_update_resource(&resource, gix_lock::acquire::Fail::Immediately, Some(boundary.clone()));
            out.insert("second_acquire_ok".into(), Json::from(second.is_ok()));
            drop(second);
            lock.write_all(b"new").unwrap();
            match lock.commit() {
                Ok(_) => {
                    out.insert("commit".into(), Json::from("ok"));
                }
                Err(e) => {
                    out.insert("commit".into(), Json::from(format!("err: {}", e.error)));
                }
            }
            out.insert("after_commit".into(), listing(&root));
            out.insert("content_after_commit".into(), jbytes(&std::fs::read(&resource).unwrap_or_default()));
        }
        Err(e) => {
            out.insert("acquire_err".into(), Json::from(format!("{e:?}")));
        }
    }
    // 2. acquire for a resource that does not exist yet, in a directory that does not exist yet, then drop
    let _ = std::fs::remove_dir_all(&root);
    std::fs::create_dir_all(&root).unwrap();
    let before = listing(&root);
    match gix_lock::Marker::acquire_to_hold_resource(&resource, gix_lock::acquire::Fail::Immediately, Some(boundary.clone())) {
        Ok(marker) => {
            out.insert("marker_lock_name".into(), file_name_bytes(marker.lock_path()));
            out.insert("after_marker_acquire".into(), listing(&root));
            drop(marker);
            out.insert("after_marker_drop".into(), listing(&root));
            out.insert("boundary_exists_after_drop".into(), Json::from(root.is_dir()));
        }
        Err(e) => {
            out.insert("marker_err".into(), Json::from(e.to_string()));
        }
    }
    out.insert("before_marker".into(), before);
    let _ = std::fs::remove_dir_all(&root);
    Json::Object(out)
}

fn res_path(root: &Path, r: &str) -> PathBuf {
    match r {
        "top" => root.join("top"),
        "nested" => root.join("d").join("nested"),
        other => panic!("resource {other}"),
    }
}

fn read_counter(p: &Path) -> u64 {
    match std::fs::read(p) {
        Ok(b) if b.is_empty() => 100, // an empty lock file became the resource
        Ok(b) => String::from_utf8_lossy(&b).trim().parse().unwrap_or(999),
        Err(_) => 0,
    }
}

fn observe(root: &Path) -> Json {
    let mut locks = Vec::new();
    if root.join("top.lock").exists() {
        locks.push("top");
    }
    if root.join("d").join("nested.lock").exists() {
        locks.push("nested");
    }
    json!({"content": {"top": read_counter(&res_path(root, "top")), "nested": read_counter(&res_path(root, "nested"))},
           "locks": locks, "dir": root.join("d").is_dir()})
}

fn calls_case(case: &Json) -> Json {
    let root = scratch("calls");
    let mut held: std::collections::HashMap<String, (gix_lock::File, String)> = Default::default();
    let mut out = Vec::new();
    for c in case["calls"].as_array().expect("calls") {
        let p = jstr(&c["p"]).to_string();
        let outcome = match jstr(&c["op"]) {
            "acquire" => {
                let r = jstr(&c["r"]);
                match gix_lock::File::acquire_to_update_resource(res_path(&root, r), gix_lock::acquire::Fail::Immediately, Some(root.clone())) {
                    Ok(l) => {
                        held.insert(p, (l, r.to_string()));
                        "ok".to_string()
                    }
                    Err(gix_lock::acquire::Error::PermanentlyLocked { .. }) => "locked".to_string(),
                    Err(e) => format!("err: {e}"),
                }
            }
            "write" => {
                let (l, r) = held.get_mut(&p).expect("holds");
                let v = read_counter(&res_path(&root, r)) + 1;
                match l.write_all(v.to_string().as_bytes()) {
                    Ok(()) => "ok".into(),
                    Err(e) => format!("err: {e}"),
                }
            }
            "commit" => {
                let (l, _r) = held.remove(&p).expect("holds");
                match l.commit() {
                    Ok(_) => "ok".into(),
                    Err(e) => format!("err: {}", e.error),
                }
            }
            "drop" => {
                drop(held.remove(&p).expect("holds"));
                "ok".into()
            }
            other => panic!("op {other}"),
        };
        out.push(json!({"outcome": outcome, "state": observe(&root)}));
    }
    drop(held);
    let _ = std::fs::remove_dir_all(&root);
    Json::Array(out)
}

fn stress_case(case: &Json) -> Json {
    let root = scratch("stress");
    let threads = jint(&case["threads"]) as usize;
    let iters = jint(&case["iters"]) as usize;
    let seed = jint(&case["seed"]) as u64;
    let nested = case["nested"].as_bool().unwrap_or(false);
    let resource = if nested { root.join("d").join("nested") } else { root.join("top") };
    static SEQ: AtomicU64 = AtomicU64::new(0);
    SEQ.store(0, Ordering::SeqCst);
    let events = std::sync::Mutex::new(Vec::new());
    let commits = AtomicU64::new(0);
    let errors = std::sync::Mutex::new(Vec::new());
    std::thread::scope(|s| {
        for t in 0..threads {
            let (resource, root, events, commits, errors) = (&resource, &root, &events, &commits, &errors);
            s.spawn(move || {
                let mut x = seed.wrapping_mul(6364136223846793005).wrapping_add(t as u64 + 1);
                let mut local = Vec::new();
                for _ in 0..iters {
                    x = x.wrapping_mul(6364136223846793005).wrapping_add(1442695040888963407);
                    match gix_lock::File::acquire_to_update_resource(resource, gix_lock::acquire::Fail::Immediately, Some(root.clone())) {
                        Ok(mut l) => {
                            local.push((SEQ.fetch_add(1, Ordering::SeqCst), t, "acquired"));
                            let v = match std::fs::read(resource) {
                                Ok(b) => String::from_utf8_lossy(&b).trim().parse::<u64>().unwrap_or(0),
                                Err(_) => 0,
                            };
                            if (x >> 33) % 4 == 0 {
                                local.push((SEQ.fetch_add(1, Ordering::SeqCst), t, "dropping"));
                                drop(l);
                            } else {
                                if (x >> 40) % 3 == 0 {
                                    std::thread::yield_now();
                                }
                                l.write_all((v + 1).to_string().as_bytes()).unwrap();
                                local.push((SEQ.fetch_add(1, Ordering::SeqCst), t, "committing"));
                                match l.commit() {
                                    Ok(_) => {
                                        commits.fetch_add(1, Ordering::SeqCst);
                                    }
                                    Err(e) => errors.lock().unwrap().push(format!("commit: {}", e.error)),
                                }
                            }
                        }
                        Err(gix_lock::acquire::Error::PermanentlyLocked { .. }) => {}
                        Err(e) => errors.lock().unwrap().push(format!("acquire: {e}")),
                    }
                }
                events.lock().unwrap().extend(local);
            });
        }
    });
    let mut evs = events.into_inner().unwrap();
    evs.sort();
    let final_v = std::fs::read(&resource).ok().map(|b| String::from_utf8_lossy(&b).trim().parse::<u64>().unwrap_or(9999)).unwrap_or(0);
    let leftover = listing(&root);
    let _ = std::fs::remove_dir_all(&root);
    json!({"events": evs.iter().map(|(s, t, e)| json!({"seq": s, "t": t, "ev": e})).collect::<Vec<_>>(),
           "final": final_v, "commits": commits.load(Ordering::SeqCst), "errors": errors.into_inner().unwrap(), "leftover": leftover})
}

fn main() {
    run(|case| match jstr(&case["op"]) {
        "name" => name_case(case),
        "calls" => calls_case(case),
        "stress" => stress_case(case),
        other => panic!("unknown op {other}"),
    });
}
