//! C43 executor: content filters (eol, ident) through the real `gix_filter::Pipeline`.
//! case: {"content":[bytes], "words":["text=auto",..], "cfg":{"autocrlf","eol"}, "idx":{"present","data"}}
//! got:  {"stats":{..}, "to_git":[bytes] (round-trip check skipped), "verdict": "none"|"crlf_to_lf"|"lf_to_crlf"|"error: ..",
//!        "to_git_checked":[bytes] (round-trip check = fail; [] when it failed), "to_wt":[bytes]}
use bstr::{BStr, ByteSlice};
use gix_filter::eol;
use std::io::Read;
use vhlib::*;

fn pipeline(cfg: &Json, check: gix_filter::pipeline::CrlfRoundTripCheck) -> gix_filter::Pipeline {
    let auto_crlf = match jstr(&cfg["autocrlf"]) {
        "true" => eol::AutoCrlf::Enabled,
        "input" => eol::AutoCrlf::Input,
        "false" => eol::AutoCrlf::Disabled,
        other => panic!("autocrlf {other}"),
    };
    let eol_mode = match jstr(&cfg["eol"]) {
        "lf" => Some(eol::Mode::Lf),
        "crlf" => Some(eol::Mode::CrLf),
        "unset" => None,
        other => panic!("core.eol {other}"),
    };
    gix_filter::Pipeline::new(
        Default::default(),
        gix_filter::pipeline::Options {
            drivers: Vec::new(),
            eol_config: eol::Configuration { auto_crlf, eol: eol_mode },
            encodings_with_roundtrip_check: Vec::new(),
            crlf_roundtrip_check: check,
            object_hash: gix_hash::Kind::Sha1,
        },
    )
}

fn main() {
    run(|case| {
        let content = bytes(&case["content"]);
        let words: Vec<String> = case["words"].as_array().expect("words").iter().map(|w| jstr(w).to_string()).collect();
        let idx_present = jbool(&case["idx"]["present"]);
        let idx_data = bytes(&case["idx"]["data"]);

        // the attributes of path `f`: built-in macros (binary) + one line of a top-level .gitattributes
        let mut buf = Vec::new();
        let mut collection = gix_attributes::search::MetadataCollection::default();
        let mut search =
            gix_attributes::Search::new_globals(std::iter::empty::<std::path::PathBuf>(), &mut buf, &mut collection).expect("globals");
        let line = format!("f {}\n", words.join(" "));
        search.add_patterns_buffer(line.as_bytes(), ".gitattributes".into(), Some(std::path::Path::new("")), &mut collection, true);
        let mut attrs = |path: &BStr, out: &mut gix_attributes::search::Outcome| {
            out.initialize(&collection);
            search.pattern_matching_relative_path(path, gix_glob::pattern::Case::Sensitive, Some(false), out);
        };

        let st = eol::Stats::from_bytes(&content);
        let mut out = json!({"stats": {"nul": st.null, "lonecr": st.lone_cr, "lonelf": st.lone_lf, "crlf": st.crlf,
                                       "printable": st.printable, "nonprintable": st.non_printable}});

        let mut to_git = |check| -> Result<Vec<u8>, String> {
            let mut p = pipeline(&case["cfg"], check);
            let mut index_object = |b: &mut Vec<u8>| {
                if idx_present {
                    b.clear();
                    b.extend_from_slice(&idx_data);
                    Ok(Some(()))
                } else {
                    Ok(None)
                }
            };
            let res = p.convert_to_git(content.as_slice(), std::path::Path::new("f"), &mut attrs, &mut index_object);
            match res {
                Ok(mut o) => {
                    let mut v = Vec::new();
                    o.read_to_end(&mut v).expect("read");
                    Ok(v)
                }
                Err(e) => Err(e.to_string()),
            }
        };
        match to_git(gix_filter::pipeline::CrlfRoundTripCheck::Skip) {
            Ok(v) => out["to_git"] = jbytes(&v),
            Err(e) => out["to_git_error"] = Json::from(e),
        }
        match to_git(gix_filter::pipeline::CrlfRoundTripCheck::Fail) {
            Ok(v) => {
                out["verdict"] = Json::from("none");
                out["to_git_checked"] = jbytes(&v);
            }
            Err(e) => {
                out["verdict"] = Json::from(if e.starts_with("CRLF would be replaced by LF") {
                    "crlf_to_lf".to_string()
                } else if e.starts_with("LF would be replaced by CRLF") {
                    "lf_to_crlf".to_string()
                } else {
                    format!("error: {e}")
                });
                out["to_git_checked"] = jbytes(&[]);
            }
        }
        let mut p = pipeline(&case["cfg"], gix_filter::pipeline::CrlfRoundTripCheck::Skip);
        match p.convert_to_worktree(&content, b"f".as_bstr(), &mut attrs, gix_filter::driver::apply::Delay::Forbid) {
            Ok(o) => out["to_wt"] = jbytes(o.as_bytes().expect("no driver")),
            Err(e) => out["to_wt_error"] = Json::from(e.to_string()),
        };
        out
    });
}
