//! C42 executor: the worktree path stack.
//!
//! op "fs":  {"calls":[{"path":[comp..], "rp":[[comp..]..], "rd":[[comp..]..]}..]}
//!           gix_fs::Stack with a delegate that logs push_directory/pop_directory and rejects
//!           `push` for paths in rp and `push_directory` for paths in rd.
//!           got: per call {ok, cur, abs_ok, dirs}
//! op "wt":  {"dirs":[[comp..]..], "calls":[{"path":[comp..]}]}
//!           gix_worktree::Stack in checkout mode (validating components) over a scratch
//!           worktree where every directory D holds `.gitattributes` = "* d=<D>"; got: per call
//!           {ok, d} where d is the value of attribute `d` at the path.
use std::path::{Path, PathBuf};
use vhlib::*;

fn comps(v: &Json) -> Vec<String> {
    v.as_array().expect("path").iter().map(|c| jstr(c).to_string()).collect()
}

fn rel(comps: &[String]) -> PathBuf {
    let mut p = PathBuf::new();
    for c in comps {
        p.push(c);
    }
    p
}

fn path_comps(p: &Path) -> Vec<String> {
    p.components().map(|c| c.as_os_str().to_string_lossy().into_owned()).collect()
}

struct Logger {
    reject_push: Vec<Vec<String>>,
    reject_dir: Vec<Vec<String>>,
    dirs: Vec<Vec<String>>,
    underflow: bool,
}

impl gix_fs::stack::Delegate for Logger {
    fn push_directory(&mut self, stack: &gix_fs::Stack) -> std::io::Result<()> {
        let p = path_comps(stack.current_relative());
        if self.reject_dir.contains(&p) {
            return Err(std::io::Error::new(std::io::ErrorKind::Other, "push_directory rejected"));
        }
        self.dirs.push(p);
        Ok(())
    }
    fn push(&mut self, _is_last_component: bool, stack: &gix_fs::Stack) -> std::io::Result<()> {
        let p = path_comps(stack.current_relative());
        if self.reject_push.contains(&p) {
            return Err(std::io::Error::new(std::io::ErrorKind::Other, "push rejected"));
        }
        Ok(())
    }
    fn pop_directory(&mut self) {
        if self.dirs.pop().is_none() {
            self.underflow = true;
        }
    }
}

fn fs_case(case: &Json) -> Json {
    let root = PathBuf::from("/vroot");
    let mut stack = gix_fs::Stack::new(root.clone());
    let mut d = Logger { reject_push: vec![], reject_dir: vec![], dirs: vec![], underflow: false };
    let mut out = Vec::new();
    for call in case["calls"].as_array().expect("calls") {
        let p = comps(&call["path"]);
        d.reject_push = call["rp"].as_array().map(|a| a.iter().map(comps).collect()).unwrap_or_default();
        d.reject_dir = call["rd"].as_array().map(|a| a.iter().map(comps).collect()).unwrap_or_default();
        let ok = stack.make_relative_path_current(&rel(&p), &mut d).is_ok();
        let cur = path_comps(stack.current_relative());
        let abs_ok = stack.current() == root.join(stack.current_relative()) && stack.root() == root;
        out.push(json!({"ok": ok, "cur": cur, "abs_ok": abs_ok, "dirs": d.dirs.clone(), "underflow": d.underflow}));
    }
    Json::Array(out)
}

fn wt_case(case: &Json) -> Json {
    let work = std::env::var("VERIF_WORK").expect("VERIF_WORK");
    let root = PathBuf::from(work).join(format!("wt-{}", std::process::id()));
    let _ = std::fs::remove_dir_all(&root);
    std::fs::create_dir_all(&root).expect("mkdir root");
    std::fs::write(root.join(".gitattributes"), b"* d=ROOT\n").expect("write");
    for dir in case["dirs"].as_array().expect("dirs") {
        let c = comps(dir);
        let p = root.join(rel(&c));
        std::fs::create_dir_all(&p).expect("mkdir");
        std::fs::write(p.join(".gitattributes"), format!("* d={}\n", c.join("_"))).expect("write");
    }
    let mut buf = Vec::new();
    let mut collection = gix_attributes::search::MetadataCollection::default();
    let search = gix_attributes::Search::new_globals(std::iter::empty::<PathBuf>(), &mut buf, &mut collection).expect("globals");
    let state = gix_worktree::stack::State::for_checkout(
        false,
        Default::default(),
        gix_worktree::stack::state::Attributes::new(
            search,
            None,
            gix_worktree::stack::state::attributes::Source::WorktreeThenIdMapping,
            collection,
        ),
    );
    let mut stack = gix_worktree::Stack::new(&root, state, Default::default(), buf, vec![]);
    let mut outcome = stack.attribute_matches();
    let mut out = Vec::new();
    for call in case["calls"].as_array().expect("calls") {
        let p = comps(&call["path"]);
        match stack.at_path(rel(&p), Some(gix_index::entry::Mode::FILE), &gix_object::find::Never) {
            Ok(platform) => {
                platform.matching_attributes(&mut outcome);
                let d: Vec<String> = outcome
                    .iter()
                    .filter(|m| m.assignment.name.as_str() == "d")
                    .map(|m| match m.assignment.state {
                        gix_attributes::StateRef::Value(v) => v.as_bstr().to_string(),
                        other => format!("{other:?}"),
                    })
                    .collect();
                out.push(json!({"ok": true, "d": d}));
            }
            Err(e) => out.push(json!({"ok": false, "err": e.to_string()})),
        }
    }
    let _ = std::fs::remove_dir_all(&root);
    Json::Array(out)
}

fn main() {
    run(|case| match case["op"].as_str().unwrap_or("fs") {
        "fs" => fs_case(case),
        "wt" => wt_case(case),
        other => panic!("unknown op {other}"),
    });
}
