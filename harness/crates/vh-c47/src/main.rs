//! C47 executor: `gix_traverse::commit::{Simple, Topo}` on materialised histories.
//! case: {"objects": <objects dir>, "cgraph": <info dir> | "",
//!        "queries": [{"tips": [hex..], "ends": [hex..], "cutoff": seconds}, ..]}
//! got: {"results": [{<mode>: {"seq": [hex..]} | {"seq": [..], "error": text} | {"panic": text}, ..}, ..]}
//! Modes (Simple only without ends - it cannot hide commits):
//!   s_bfs s_bfs_fp s_new s_old s_new_fp s_cut_new s_cut_old   t_topo t_topo_fp t_date t_date_fp
use gix_hash::ObjectId;
use gix_traverse::commit::simple::{CommitTimeOrder, Sorting};
use gix_traverse::commit::{topo, Parents, Simple};
use vhlib::*;

fn oids(v: &Json) -> Vec<ObjectId> {
    v.as_array()
        .expect("id list")
        .iter()
        .map(|x| ObjectId::from_hex(jstr(x).as_bytes()).expect("hex id"))
        .collect()
}

fn collect<E: std::fmt::Display>(it: &mut impl Iterator<Item = Result<gix_traverse::commit::Info, E>>) -> Json {
    let mut seq = Vec::new();
    for item in it {
        match item {
            Ok(info) => seq.push(Json::from(info.id.to_string())),
            Err(e) => return json!({"seq": seq, "error": e.to_string()}),
        }
        if seq.len() > 100_000 {
            return json!({"seq": seq, "error": "walk does not end"});
        }
    }
    json!({"seq": seq})
}

fn main() {
    run(|case| {
        let odb = gix_odb::at(jstr(&case["objects"])).expect("open object database");
        let cg = jstr(&case["cgraph"]).to_owned();
        let load = || gix_commitgraph::Graph::from_info_dir(std::path::Path::new(&cg)).expect("commit-graph present");
        // Every walk wants to own a `Graph`, which is not `Clone`; opening (mmap) and dropping (munmap) the file for each
        // of the hundreds of thousands of walks dominates the run on this machine. So the file is mapped once per case
        // and every walker gets a bitwise copy; walkers are then forgotten instead of dropped, so that nothing unmaps
        // the shared mapping (the process is short-lived; the driver starts one per chunk of queries).
        let master = std::cell::RefCell::new((!cg.is_empty()).then(load));
        let graph = || master.borrow().as_ref().map(|g| unsafe { std::ptr::read(g) });
        let after_panic = || {
            // unwinding dropped a walker and with it the mapping: never touch the old master again
            if let Some(old) = master.borrow_mut().take() {
                std::mem::forget(old);
            }
            if !cg.is_empty() {
                *master.borrow_mut() = Some(load());
            }
        };
        let mut results = Vec::new();
        for q in case["queries"].as_array().expect("queries") {
            let tips = oids(&q["tips"]);
            let ends = oids(&q["ends"]);
            let cutoff = jint(&q["cutoff"]);
            let mut out = Map::new();
            let mut put = |name: &str, r: Result<Json, String>| {
                out.insert(
                    name.into(),
                    match r {
                        Ok(v) => v,
                        Err(msg) => {
                            after_panic();
                            json!({"panic": msg})
                        }
                    },
                );
            };
            if ends.is_empty() {
                let simple = |sorting: Sorting, parents: Parents| {
                    guarded(|| {
                        match Simple::new(tips.iter().copied(), &odb)
                            .sorting(sorting)
                            .map(|w| w.parents(parents).commit_graph(graph()))
                        {
                            Ok(mut walk) => {
                                let res = collect(&mut walk);
                                std::mem::forget(walk);
                                res
                            }
                            Err(e) => json!({"seq": [], "error": e.to_string()}),
                        }
                    })
                };
                use CommitTimeOrder::*;
                put("s_bfs", simple(Sorting::BreadthFirst, Parents::All));
                put("s_bfs_fp", simple(Sorting::BreadthFirst, Parents::First));
                put("s_new", simple(Sorting::ByCommitTime(NewestFirst), Parents::All));
                put("s_old", simple(Sorting::ByCommitTime(OldestFirst), Parents::All));
                put("s_new_fp", simple(Sorting::ByCommitTime(NewestFirst), Parents::First));
                put(
                    "s_cut_new",
                    simple(Sorting::ByCommitTimeCutoff { order: NewestFirst, seconds: cutoff }, Parents::All),
                );
                put(
                    "s_cut_old",
                    simple(Sorting::ByCommitTimeCutoff { order: OldestFirst, seconds: cutoff }, Parents::All),
                );
            }
            let topo = |sorting: topo::Sorting, parents: Parents| {
                guarded(|| {
                    match topo::Builder::from_iters(&odb, tips.iter().copied(), Some(ends.iter().copied()))
                        .sorting(sorting)
                        .parents(parents)
                        .with_commit_graph(graph())
                        .build()
                    {
                        Ok(mut walk) => {
                            let res = collect(&mut walk);
                            std::mem::forget(walk);
                            res
                        }
                        Err(e) => {
                            after_panic(); // the failed builder dropped its copy of the graph
                            json!({"seq": [], "error": e.to_string()})
                        }
                    }
                })
            };
            put("t_topo", topo(topo::Sorting::TopoOrder, Parents::All));
            put("t_topo_fp", topo(topo::Sorting::TopoOrder, Parents::First));
            put("t_date", topo(topo::Sorting::DateOrder, Parents::All));
            put("t_date_fp", topo(topo::Sorting::DateOrder, Parents::First));
            results.push(Json::Object(out));
        }
        json!({"results": results})
    });
}
