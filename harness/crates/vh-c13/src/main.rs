//! C13 executor: alternates resolution in a materialised world of object directories.
//!
//! case: {"id": n, "root": k (1-based), "paths": [[component..]..] (one per directory, relative to the world),
//!        "files": [[line..]..] (one info/alternates per directory; [] = no file),
//!        "objs": [{"id": hex, "loose": [bytes]}..] (one loose object per directory), "keep": bool}
//! line:  {"abs": bool, "comps": [component..], "q": bool, "slash": bool, "raw": text}; raw text is used when comps is empty
//!        abs: the world directory is prepended; q: ansi-c quoted; slash: trailing '/'
//! got:   {"world": dir, "resolve": {"ok": [directory index | 0 = not one of the world's directories ..], "raw": [path..]}
//!                                  | {"cycle": [path..]} | {"err": text},
//!         "store": {"readable": [bool per directory]} | {"open_err": text}}
use std::path::{Path, PathBuf};
use vhlib::*;

fn comps(v: &Json) -> Vec<String> {
    v.as_array().expect("components").iter().map(|c| jstr(c).to_string()).collect()
}

fn quote(s: &str) -> String {
    let mut o = String::from("\"");
    for c in s.chars() {
        match c {
            '"' => o.push_str("\\\""),
            '\\' => o.push_str("\\\\"),
            '\t' => o.push_str("\\t"),
            c if (c as u32) >= 0x80 => {
                let mut b = [0u8; 4];
                for byte in c.encode_utf8(&mut b).bytes() {
                    o.push_str(&format!("\\{byte:03o}"));
                }
            }
            c => o.push(c),
        }
    }
    o.push('"');
    o
}

fn render(world: &Path, line: &Json) -> String {
    let parts = comps(&line["comps"]);
    if parts.is_empty() {
        // a raw line (comment, blank)
        return line.get("raw").and_then(Json::as_str).unwrap_or("").to_string();
    }
    let mut text = parts.join("/");
    if jbool(&line["abs"]) {
        text = format!("{}/{}", world.display(), text);
    }
    if line.get("slash").and_then(Json::as_bool).unwrap_or(false) {
        text.push('/');
    }
    if jbool(&line["q"]) {
        quote(&text)
    } else {
        text
    }
}

fn index_of(dirs: &[PathBuf], p: &Path) -> usize {
    match std::fs::canonicalize(p) {
        Ok(c) => dirs.iter().position(|d| *d == c).map(|i| i + 1).unwrap_or(0),
        Err(_) => 0,
    }
}

fn main() {
    run(|case| {
        let work = std::env::var("VERIF_WORK").expect("VERIF_WORK");
        let world = PathBuf::from(work).join("c13w").join(format!("{}", jint(&case["id"])));
        let _ = std::fs::remove_dir_all(&world);
        std::fs::create_dir_all(&world).expect("mkdir world");
        let world = std::fs::canonicalize(&world).expect("canonical world");
        let paths: Vec<PathBuf> = case["paths"]
            .as_array()
            .expect("paths")
            .iter()
            .map(|p| comps(p).iter().fold(world.clone(), |acc, c| acc.join(c)))
            .collect();
        for (i, p) in paths.iter().enumerate() {
            std::fs::create_dir_all(p.join("info")).expect("mkdir");
            let lines = case["files"][i].as_array().cloned().unwrap_or_default();
            if !lines.is_empty() {
                let mut text = String::new();
                for l in &lines {
                    text.push_str(&render(&world, l));
                    text.push('\n');
                }
                std::fs::write(p.join("info").join("alternates"), text).expect("write alternates");
            }
            let obj = &case["objs"][i];
            let id = jstr(&obj["id"]);
            std::fs::create_dir_all(p.join(&id[..2])).expect("mkdir fanout");
            std::fs::write(p.join(&id[..2]).join(&id[2..]), bytes(&obj["loose"])).expect("write loose");
        }
        let canon: Vec<PathBuf> = paths.iter().map(|p| std::fs::canonicalize(p).expect("canon")).collect();
        let root = paths[jint(&case["root"]) as usize - 1].clone();
        let cwd = std::env::current_dir().expect("cwd");
        let resolve = match gix_odb::alternate::resolve(root.clone(), &cwd) {
            Ok(list) => json!({"ok": list.iter().map(|p| index_of(&canon, p)).collect::<Vec<_>>(),
                               "raw": list.iter().map(|p| p.display().to_string()).collect::<Vec<_>>()}),
            Err(gix_odb::alternate::Error::Cycle(chain)) => {
                json!({"cycle": chain.iter().map(|p| p.display().to_string()).collect::<Vec<_>>()})
            }
            Err(e) => json!({"err": e.to_string()}),
        };
        let store = match gix_odb::at(root) {
            Ok(handle) => {
                use gix_object::Exists;
                let readable: Vec<bool> = case["objs"]
                    .as_array()
                    .expect("objs")
                    .iter()
                    .map(|o| {
                        let id = gix_hash::ObjectId::from_hex(jstr(&o["id"]).as_bytes()).expect("hex");
                        let mut buf = Vec::new();
                        handle.exists(&id) && matches!(gix_object::Find::try_find(&handle, &id, &mut buf), Ok(Some(_)))
                    })
                    .collect();
                json!({"readable": readable})
            }
            Err(e) => json!({"open_err": e.to_string()}),
        };
        if !case["keep"].as_bool().unwrap_or(false) {
            let _ = std::fs::remove_dir_all(&world);
        }
        json!({"world": world.display().to_string(), "resolve": resolve, "store": store})
    });
}
