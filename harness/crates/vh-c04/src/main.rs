//! C04 executor: edit histories through gix_object::tree::Editor.
//!
//! case: {"root": "EMPTY"|"R1", "steps": [{"op": {"op": "upsert"|"remove"|"write"|"setroot"|"cupsert"|"cremove"|"cwrite",
//!         "path": [comp..], "at": [comp..], "kind": "blob"|"exe"|"link"|"commit"|"tree", "id": "B1"|"B2"|"C1"|"T1"|"null"|"R1"|"EMPTY"}, ..}]}
//! got: per step null, or for writes {"id": hex, "flat": [{"path","kind","id"}..], "written": [[{"name": bytes, "tree": bool}..]..]}
//! Objects live in an in-memory map that also receives every tree handed to the `out` callback.
use bstr::{BString, ByteSlice};
use gix_hash::ObjectId;
use gix_object::tree::{EntryKind, EntryMode};
use gix_object::{Tree, WriteTo};
use std::cell::RefCell;
use std::collections::HashMap;
use vhlib::*;

#[derive(Default)]
struct Db {
    trees: RefCell<HashMap<ObjectId, Vec<u8>>>,
}

impl gix_object::Find for Db {
    fn try_find<'a>(
        &self,
        id: &gix_hash::oid,
        buffer: &'a mut Vec<u8>,
    ) -> Result<Option<gix_object::Data<'a>>, gix_object::find::Error> {
        match self.trees.borrow().get(&id.to_owned()) {
            Some(data) => {
                buffer.clear();
                buffer.extend_from_slice(data);
                Ok(Some(gix_object::Data { kind: gix_object::Kind::Tree, data: buffer }))
            }
            None => Ok(None),
        }
    }
}

impl Db {
    fn put(&self, tree: &Tree) -> ObjectId {
        let mut buf = Vec::new();
        tree.write_to(&mut buf).expect("write tree");
        let id = gix_object::compute_hash(gix_hash::Kind::Sha1, gix_object::Kind::Tree, &buf);
        self.trees.borrow_mut().insert(id, buf);
        id
    }
    fn get(&self, id: &ObjectId) -> Option<Tree> {
        let data = self.trees.borrow().get(id)?.clone();
        Some(gix_object::TreeRef::from_bytes(&data).expect("valid tree").into())
    }
}

fn named_id(name: &str, t1: ObjectId, r1: ObjectId) -> ObjectId {
    match name {
        "B1" => ObjectId::from([0x11; 20]),
        "B2" => ObjectId::from([0x22; 20]),
        "C1" => ObjectId::from([0xcc; 20]),
        "null" => ObjectId::null(gix_hash::Kind::Sha1),
        "T1" => t1,
        "R1" => r1,
        other => panic!("unknown id {other}"),
    }
}

fn id_name(id: &ObjectId) -> String {
    let b = id.as_bytes();
    if b.iter().all(|x| *x == 0x11) {
        "B1".into()
    } else if b.iter().all(|x| *x == 0x22) {
        "B2".into()
    } else if b.iter().all(|x| *x == 0xcc) {
        "C1".into()
    } else if b.iter().all(|x| *x == 0) {
        "null".into()
    } else {
        id.to_hex().to_string()
    }
}

fn kind_of(name: &str) -> EntryKind {
    match name {
        "blob" => EntryKind::Blob,
        "exe" => EntryKind::BlobExecutable,
        "link" => EntryKind::Link,
        "commit" => EntryKind::Commit,
        "tree" => EntryKind::Tree,
        other => panic!("unknown kind {other}"),
    }
}

fn kind_name(mode: EntryMode) -> &'static str {
    match mode.kind() {
        EntryKind::Blob => "blob",
        EntryKind::BlobExecutable => "exe",
        EntryKind::Link => "link",
        EntryKind::Commit => "commit",
        EntryKind::Tree => "tree",
    }
}

fn entry(name: &str, kind: EntryKind, id: ObjectId) -> gix_object::tree::Entry {
    gix_object::tree::Entry { mode: kind.into(), filename: name.into(), oid: id }
}

fn comps(v: &Json) -> Vec<BString> {
    v.as_array().map(|a| a.iter().map(|c| BString::from(jstr(c))).collect()).unwrap_or_default()
}

fn flatten(db: &Db, id: &ObjectId, prefix: &mut Vec<String>, out: &mut Vec<Json>) {
    let Some(tree) = db.get(id) else {
        out.push(json!({"path": prefix.clone(), "kind": "MISSING-TREE", "id": id.to_hex().to_string()}));
        return;
    };
    for e in &tree.entries {
        prefix.push(e.filename.to_str_lossy().into_owned());
        if e.mode.is_tree() {
            flatten(db, &e.oid, prefix, out);
        } else {
            out.push(json!({"path": prefix.clone(), "kind": kind_name(e.mode), "id": id_name(&e.oid)}));
        }
        prefix.pop();
    }
}

fn handle(case: &Json) -> Json {
    let db = Db::default();
    let b1 = ObjectId::from([0x11; 20]);
    let b2 = ObjectId::from([0x22; 20]);
    // T1 = {c: blob B1, d: blob B2}
    let t1 = db.put(&Tree { entries: vec![entry("c", EntryKind::Blob, b1), entry("d", EntryKind::Blob, b2)] });
    // R1 = {a: {b: blob B1, c: {d: blob B2}}, a0: exe B2}
    let r1_a_c = db.put(&Tree { entries: vec![entry("d", EntryKind::Blob, b2)] });
    let r1_a = db.put(&Tree { entries: vec![entry("b", EntryKind::Blob, b1), entry("c", EntryKind::Tree, r1_a_c)] });
    let r1_tree = Tree { entries: vec![entry("a", EntryKind::Tree, r1_a), entry("a0", EntryKind::BlobExecutable, b2)] };
    let r1 = db.put(&r1_tree);
    let empty = db.put(&Tree::empty());
    let root_tree = |name: &str| -> Tree {
        match name {
            "EMPTY" => Tree::empty(),
            "R1" => r1_tree.clone(),
            other => panic!("unknown root {other}"),
        }
    };
    let _ = empty;
    let mut editor = gix_object::tree::Editor::new(root_tree(jstr(&case["root"])), &db, gix_hash::Kind::Sha1);
    let mut results = Vec::new();
    for step in case["steps"].as_array().expect("steps") {
        let op = &step["op"];
        let mut written: Vec<Json> = Vec::new();
        let mut out = |tree: &Tree| -> Result<ObjectId, std::convert::Infallible> {
            written.push(Json::Array(
                tree.entries.iter().map(|e| json!({"name": jbytes(&e.filename), "tree": e.mode.is_tree()})).collect(),
            ));
            Ok(db.put(tree))
        };
        let res = match jstr(&op["op"]) {
            "upsert" => {
                editor
                    .upsert(comps(&op["path"]), kind_of(jstr(&op["kind"])), named_id(jstr(&op["id"]), t1, r1))
                    .expect("upsert");
                Json::Null
            }
            "remove" => {
                editor.remove(comps(&op["path"])).expect("remove");
                Json::Null
            }
            "setroot" => {
                editor.set_root(root_tree(jstr(&op["id"])));
                Json::Null
            }
            "write" => {
                let id = editor.write(&mut out).expect("infallible");
                json!({ "id": id.to_hex().to_string() })
            }
            "cupsert" => {
                let mut c = editor.cursor_at(comps(&op["at"])).expect("cursor");
                c.upsert(comps(&op["path"]), kind_of(jstr(&op["kind"])), named_id(jstr(&op["id"]), t1, r1)).expect("upsert");
                Json::Null
            }
            "cremove" => {
                let mut c = editor.cursor_at(comps(&op["at"])).expect("cursor");
                c.remove(comps(&op["path"])).expect("remove");
                Json::Null
            }
            "cwrite" => {
                let mut c = editor.cursor_at(comps(&op["at"])).expect("cursor");
                let id = c.write(&mut out).expect("infallible");
                json!({ "id": id.to_hex().to_string() })
            }
            other => panic!("unknown op {other}"),
        };
        if let Some(hex) = res.get("id").and_then(|v| v.as_str()) {
            let id = ObjectId::from_hex(hex.as_bytes()).expect("hex");
            let mut flat = Vec::new();
            flatten(&db, &id, &mut Vec::new(), &mut flat);
            results.push(json!({"id": hex, "flat": flat, "written": written}));
        } else {
            results.push(Json::Null);
        }
    }
    Json::Array(results)
}

fn main() {
    run(handle);
}
