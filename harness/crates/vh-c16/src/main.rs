//! C16 / C17 / C20 executor: reference transactions on a scratch repository.
//!
//! case: {"op": "tx" | "crash", "loose": {name: {k,v}}, "packed": {name: {k,v}}, "mode": "DeletionsOnly"|"Updates"|"UpdatesRemoveLoose",
//!        "edits": [{name, op, new:{k,v}, exp, expt:{k,v}, deref}], "held": [lock names], "git": bool, "second": [edits] (optional 2nd tx, same handle)}
//! env:  VERIF_C16_TEMPLATE = bare repository holding the objects; VERIF_C16_OIDS = "o1=<hex>,o2=<hex>"; VERIF_C16_SHIM = path of libcrash.so
//! got (tx):    {"ok": bool, "err": str, "same": view, "fresh": view, "iter": [[name, target]..], "locks": [paths], "git": view|null, "held_intact": bool}
//! got (crash): {"points": N, "runs": [{"n": i, "fresh": view, "git": view, "locks": [...], "packed_state": "old"|"new"|"other"}]}
//! A view maps each of the case's names to {"k": "none"|"obj"|"sym"|"error", "v": ...}.
use gix_ref::transaction::{Change, LogChange, PreviousValue, RefEdit, RefLog};
use gix_ref::{file, FullName, Target};
use std::collections::BTreeMap;
use std::path::{Path, PathBuf};
use vhlib::*;

fn oids() -> BTreeMap<String, String> {
    std::env::var("VERIF_C16_OIDS")
        .expect("VERIF_C16_OIDS")
        .split(',')
        .map(|kv| {
            let (k, v) = kv.split_once('=').expect("k=v");
            (k.to_string(), v.to_string())
        })
        .collect()
}

fn oid_of(name: &str) -> gix_hash::ObjectId {
    gix_hash::ObjectId::from_hex(oids().get(name).unwrap_or_else(|| panic!("oid {name}")).as_bytes()).expect("hex")
}

fn oid_name(hex: &str) -> String {
    oids().iter().find(|(_, v)| v.as_str() == hex).map(|(k, _)| k.clone()).unwrap_or_else(|| hex.to_string())
}

fn target_of(v: &Json) -> Option<Target> {
    match jstr(&v["k"]) {
        "none" => None,
        "obj" => Some(Target::Object(oid_of(jstr(&v["v"])))),
        "sym" => Some(Target::Symbolic(FullName::try_from(jstr(&v["v"])).expect("valid name"))),
        other => panic!("target kind {other}"),
    }
}

fn jtarget(t: Option<&Target>) -> Json {
    match t {
        None => json!({"k": "none", "v": ""}),
        Some(Target::Object(id)) => json!({"k": "obj", "v": oid_name(&id.to_hex().to_string())}),
        Some(Target::Symbolic(n)) => json!({"k": "sym", "v": n.as_bstr().to_string()}),
    }
}

fn repo_dir() -> PathBuf {
    let work = PathBuf::from(std::env::var("VERIF_WORK").expect("VERIF_WORK"));
    let dir = work.join(format!("c16-repo-{}", std::process::id()));
    if !dir.exists() {
        let template = std::env::var("VERIF_C16_TEMPLATE").expect("VERIF_C16_TEMPLATE");
        let st = std::process::Command::new("cp").arg("-r").arg(&template).arg(&dir).status().expect("cp");
        assert!(st.success());
    }
    dir
}

fn materialise(git_dir: &Path, case: &Json) {
    let _ = std::fs::remove_dir_all(git_dir.join("refs"));
    let _ = std::fs::remove_dir_all(git_dir.join("logs"));
    let _ = std::fs::remove_file(git_dir.join("packed-refs"));
    let _ = std::fs::remove_file(git_dir.join("packed-refs.lock"));
    let _ = std::fs::remove_file(git_dir.join("HEAD"));
    let _ = std::fs::remove_file(git_dir.join("HEAD.lock"));
    std::fs::create_dir_all(git_dir.join("refs/heads")).unwrap();
    std::fs::create_dir_all(git_dir.join("refs/tags")).unwrap();
    for (name, t) in case["loose"].as_object().expect("loose") {
        let content = match jstr(&t["k"]) {
            "none" => continue,
            "obj" => format!("{}\n", oid_of(jstr(&t["v"])).to_hex()),
            "sym" => format!("ref: {}\n", jstr(&t["v"])),
            other => panic!("{other}"),
        };
        let p = git_dir.join(name);
        std::fs::create_dir_all(p.parent().unwrap()).unwrap();
        std::fs::write(p, content).unwrap();
    }
    let mut lines: Vec<(String, String)> = Vec::new();
    for (name, t) in case["packed"].as_object().expect("packed") {
        if jstr(&t["k"]) == "obj" {
            lines.push((name.clone(), oid_of(jstr(&t["v"])).to_hex().to_string()));
        }
    }
    if !lines.is_empty() {
        lines.sort();
        let mut s = String::from("# pack-refs with: peeled fully-peeled sorted \n");
        for (n, o) in lines {
            s.push_str(&format!("{o} {n}\n"));
        }
        std::fs::write(git_dir.join("packed-refs"), s).unwrap();
    }
    if let Some(held) = case["held"].as_array() {
        for h in held {
            let p = git_dir.join(format!("{}.lock", jstr(h)));
            std::fs::create_dir_all(p.parent().unwrap()).unwrap();
            std::fs::write(p, b"held by another party\n").unwrap();
        }
    }
}

fn store_at(git_dir: &Path) -> file::Store {
    file::Store::at(
        git_dir.to_owned(),
        gix_ref::store::init::Options { write_reflog: gix_ref::store::WriteReflog::Always, ..Default::default() },
    )
}

fn edits_of(v: &Json) -> Vec<RefEdit> {
    v.as_array()
        .expect("edits")
        .iter()
        .map(|e| {
            let expected = match jstr(&e["exp"]) {
                "Any" => PreviousValue::Any,
                "MustExist" => PreviousValue::MustExist,
                "MustNotExist" => PreviousValue::MustNotExist,
                "MustExistAndMatch" => PreviousValue::MustExistAndMatch(target_of(&e["expt"]).expect("target")),
                "ExistingMustMatch" => PreviousValue::ExistingMustMatch(target_of(&e["expt"]).expect("target")),
                other => panic!("{other}"),
            };
            let change = match jstr(&e["op"]) {
                "update" => Change::Update {
                    log: LogChange { mode: RefLog::AndReference, force_create_reflog: false, message: "verif".into() },
                    expected,
                    new: target_of(&e["new"]).expect("new target"),
                },
                "delete" => Change::Delete { expected, log: RefLog::AndReference },
                other => panic!("{other}"),
            };
            RefEdit { change, name: FullName::try_from(jstr(&e["name"])).expect("name"), deref: jbool(&e["deref"]) }
        })
        .collect()
}

fn run_tx(store: &file::Store, git_dir: &Path, mode: &str, edits: Vec<RefEdit>) -> Result<(), String> {
    let odb = || -> Box<dyn gix_object::Find> { Box::new(gix_odb::at(git_dir.join("objects")).expect("odb")) };
    let packed = match mode {
        "DeletionsOnly" => file::transaction::PackedRefs::DeletionsOnly,
        "Updates" => file::transaction::PackedRefs::DeletionsAndNonSymbolicUpdates(odb()),
        "UpdatesRemoveLoose" => file::transaction::PackedRefs::DeletionsAndNonSymbolicUpdatesRemoveLooseSourceReference(odb()),
        other => panic!("{other}"),
    };
    let committer = gix_actor::Signature {
        name: "V".into(),
        email: "v@x".into(),
        time: gix_date::Time { seconds: 1_000_000_000, offset: 0, sign: gix_date::time::Sign::Plus },
    };
    let tx = store
        .transaction()
        .packed_refs(packed)
        .prepare(edits, gix_lock::acquire::Fail::Immediately, gix_lock::acquire::Fail::Immediately)
        .map_err(|e| format!("prepare: {e}"))?;
    tx.commit(committer.to_ref()).map_err(|e| format!("commit: {e}"))?;
    Ok(())
}

fn view(store: &file::Store, names: &[String]) -> Json {
    let mut m = Map::new();
    for n in names {
        let v = match store.try_find(n.as_str()) {
            Ok(Some(r)) => jtarget(Some(&r.target)),
            Ok(None) => jtarget(None),
            Err(e) => json!({"k": "error", "v": e.to_string()}),
        };
        m.insert(n.clone(), v);
    }
    Json::Object(m)
}

fn iter_all(store: &file::Store) -> Json {
    let mut out = Vec::new();
    match store.iter() {
        Ok(platform) => match platform.all() {
            Ok(it) => {
                for r in it {
                    match r {
                        Ok(r) => out.push(json!([r.name.as_bstr().to_string(), jtarget(Some(&r.target))])),
                        Err(e) => out.push(json!(["<error>", e.to_string()])),
                    }
                }
            }
            Err(e) => out.push(json!(["<error>", e.to_string()])),
        },
        Err(e) => out.push(json!(["<error>", e.to_string()])),
    }
    Json::Array(out)
}

fn lock_files(dir: &Path, base: &Path, out: &mut Vec<String>) {
    if let Ok(rd) = std::fs::read_dir(dir) {
        for e in rd.flatten() {
            let p = e.path();
            if p.is_dir() {
                if p.file_name().map_or(false, |n| n == "objects") {
                    continue;
                }
                lock_files(&p, base, out);
            } else if p.extension().map_or(false, |x| x == "lock") {
                out.push(p.strip_prefix(base).unwrap().to_string_lossy().into_owned());
            }
        }
    }
}

fn git_out(git_dir: &Path, args: &[&str]) -> Option<String> {
    let o = std::process::Command::new("git")
        .arg("--git-dir")
        .arg(git_dir)
        .args(args)
        .env("GIT_CONFIG_NOSYSTEM", "1")
        .env("GIT_CONFIG_GLOBAL", "/dev/null")
        .output()
        .expect("git");
    o.status.success().then(|| String::from_utf8_lossy(&o.stdout).trim().to_string())
}

fn git_view(git_dir: &Path, names: &[String]) -> Json {
    // two processes per observation: all refs with their direct targets, and HEAD
    let mut m = Map::new();
    let listing = git_out(git_dir, &["for-each-ref", "--format=%(refname) %(objectname) %(symref)"]);
    for n in names {
        let v = if n == "HEAD" {
            if let Some(t) = git_out(git_dir, &["symbolic-ref", "--no-recurse", "-q", "HEAD"]) {
                json!({"k": "sym", "v": t})
            } else {
                match std::fs::read_to_string(git_dir.join("HEAD")) {
                    Ok(s) if s.trim().len() == 40 => json!({"k": "obj", "v": oid_name(s.trim())}),
                    Ok(s) => json!({"k": "error", "v": format!("HEAD content {s:?}")}),
                    Err(_) => json!({"k": "none", "v": ""}),
                }
            }
        } else {
            match &listing {
                None => json!({"k": "error", "v": "git for-each-ref failed"}),
                Some(l) => {
                    let mut v = json!({"k": "none", "v": ""});
                    for line in l.lines() {
                        let mut it = line.split(' ');
                        if it.next() == Some(n.as_str()) {
                            let oid = it.next().unwrap_or("");
                            let sym = it.next().unwrap_or("");
                            v = if sym.is_empty() { json!({"k": "obj", "v": oid_name(oid)}) } else { json!({"k": "sym", "v": sym}) };
                        }
                    }
                    v
                }
            }
        };
        m.insert(n.clone(), v);
    }
    Json::Object(m)
}

fn names_of(case: &Json) -> Vec<String> {
    case["loose"].as_object().expect("loose").keys().cloned().collect()
}

fn tx_case(case: &Json) -> Json {
    let git_dir = repo_dir();
    materialise(&git_dir, case);
    let names = names_of(case);
    let store = store_at(&git_dir);
    // make the handle load its packed-refs snapshot before the transaction, like a long-lived handle would
    let _ = view(&store, &names);
    let res = run_tx(&store, &git_dir, jstr(&case["mode"]), edits_of(&case["edits"]));
    let mut second = Json::Null;
    if case["second"].is_array() {
        let r2 = run_tx(&store, &git_dir, jstr(&case["mode"]), edits_of(&case["second"]));
        second = json!({"ok": r2.is_ok(), "err": r2.err().unwrap_or_default()});
    }
    let same = view(&store, &names);
    let fresh_store = store_at(&git_dir);
    let fresh = view(&fresh_store, &names);
    let iter = iter_all(&fresh_store);
    let mut locks = Vec::new();
    lock_files(&git_dir, &git_dir, &mut locks);
    locks.sort();
    let mut held_intact = true;
    if let Some(held) = case["held"].as_array() {
        for h in held {
            let p = git_dir.join(format!("{}.lock", jstr(h)));
            held_intact &= std::fs::read(&p).map_or(false, |c| c == b"held by another party\n");
        }
    }
    let git = if case["git"].as_bool().unwrap_or(false) { git_view(&git_dir, &names) } else { Json::Null };
    json!({"ok": res.is_ok(), "err": res.err().unwrap_or_default(), "second": second, "same": same, "fresh": fresh,
           "iter": iter, "locks": locks, "held_intact": held_intact, "git": git})
}

fn packed_content(git_dir: &Path) -> Option<Vec<u8>> {
    std::fs::read(git_dir.join("packed-refs")).ok()
}

/// Run the transaction in a child that the preloaded shim kills before its n-th file-system mutation.
fn crash_case(case: &Json) -> Json {
    let git_dir = repo_dir();
    let names = names_of(case);
    let shim = std::env::var("VERIF_C16_SHIM").expect("VERIF_C16_SHIM");
    let case_file = git_dir.with_extension("case.json");
    std::fs::write(&case_file, serde_json_string(case)).unwrap();
    let count_file = git_dir.with_extension("count");
    let exe = std::env::current_exe().unwrap();
    let run_child = |n: usize| -> (Option<i32>, String) {
        materialise(&git_dir, case);
        let _ = std::fs::remove_file(&count_file);
        let o = std::process::Command::new(&exe)
            .arg("--child")
            .arg(&case_file)
            .arg(&git_dir)
            .env("LD_PRELOAD", &shim)
            .env("CRASH_AT", n.to_string())
            .env("CRASH_COUNT_FILE", &count_file)
            .output()
            .expect("child");
        (o.status.code(), String::from_utf8_lossy(&o.stdout).to_string())
    };
    // dry run: count the mutation points and learn the old / new packed-refs files
    materialise(&git_dir, case);
    let packed_old = packed_content(&git_dir);
    let (code, out) = run_child(0);
    let points: usize = std::fs::read_to_string(&count_file).ok().and_then(|s| s.trim().parse().ok()).unwrap_or(0);
    let packed_new = packed_content(&git_dir);
    let dry_ok = code == Some(0) && out.contains("TX-OK");
    let mut runs = Vec::new();
    if dry_ok {
        for n in 1..=points {
            let (code, _out) = run_child(n);
            let fresh_store = store_at(&git_dir);
            let fresh = view(&fresh_store, &names);
            let iter = iter_all(&fresh_store);
            let git = git_view(&git_dir, &names);
            let mut locks = Vec::new();
            lock_files(&git_dir, &git_dir, &mut locks);
            let now = packed_content(&git_dir);
            let packed_state = if now == packed_old { "old" } else if now == packed_new { "new" } else { "other" };
            // anything left in the ref directories that is neither a ref of the model, a lock, a log nor a directory
            runs.push(json!({"n": n, "exit": code, "fresh": fresh, "iter": iter, "git": git, "locks": locks, "packed_state": packed_state}));
        }
    }
    json!({"points": points, "dry_ok": dry_ok, "dry_out": out, "runs": runs})
}

fn serde_json_string(v: &Json) -> String {
    v.to_string()
}

fn child_main(args: &[String]) {
    let case: Json = {
        let s = std::fs::read_to_string(&args[2]).expect("case file");
        s.parse().expect("json")
    };
    let git_dir = PathBuf::from(&args[3]);
    let store = store_at(&git_dir);
    match run_tx(&store, &git_dir, jstr(&case["mode"]), edits_of(&case["edits"])) {
        Ok(()) => println!("TX-OK"),
        Err(e) => println!("TX-ERR {e}"),
    }
}

fn main() {
    let args: Vec<String> = std::env::args().collect();
    if args.get(1).map(String::as_str) == Some("--child") {
        child_main(&args);
        return;
    }
    run(|case| match jstr(&case["op"]) {
        "tx" => tx_case(case),
        "crash" => crash_case(case),
        other => panic!("unknown op {other}"),
    });
}
