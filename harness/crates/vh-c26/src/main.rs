//! C26 executor: git-config text -> parse events -> text, and File -> to_bstring -> File.
//! case: {"input": [bytes]}
//! got:  {parse_ok, concat (bytes written by Event::write_to over all events), kinds (event kinds),
//!        file_ok, ser (File::to_bstring), listing (from the loaded File), reparse_ok,
//!        listing2 (from File::from_bytes(ser)), elisting (from the raw parse events of `ser`)}
//! A listing is a sequence of {sec, hassub, sub, key, hasval, val}: section name and value name
//! lower-cased (they are case-insensitive), subsection verbatim, value normalised by gix-config.
use bstr::ByteSlice;
use gix_config::parse::{Event, Events};
use vhlib::*;

fn lower(b: &[u8]) -> Vec<u8> {
    b.to_ascii_lowercase()
}

fn entry(sec: &[u8], sub: Option<&[u8]>, key: &[u8], val: Option<&[u8]>) -> Json {
    json!({"sec": jbytes(&lower(sec)), "hassub": sub.is_some(), "sub": jbytes(sub.unwrap_or(b"")),
           "key": jbytes(&lower(key)), "hasval": val.is_some(), "val": jbytes(val.unwrap_or(b""))})
}

/// listing from raw parse events: an entry per SectionValueName; implicit iff no `=` follows.
fn listing_of_events(ev: &Events<'_>) -> Json {
    let mut out = Vec::new();
    for s in &ev.sections {
        let sec = s.header.name().to_vec();
        let sub = s.header.subsection_name().map(|b| b.to_vec());
        let mut key: Option<Vec<u8>> = None;
        let mut sep = false;
        let mut partial: Vec<u8> = Vec::new();
        for e in &s.events {
            match e {
                Event::SectionValueName(k) => {
                    key = Some(k.as_ref().as_bytes().to_vec());
                    sep = false;
                    partial.clear();
                }
                Event::KeyValueSeparator => sep = true,
                Event::ValueNotDone(v) => partial.extend_from_slice(v),
                Event::Value(v) | Event::ValueDone(v) => {
                    partial.extend_from_slice(v);
                    if let Some(k) = key.take() {
                        let n = gix_config::value::normalize_bstr(partial.as_bstr());
                        out.push(entry(&sec, sub.as_deref(), &k, if sep { Some(n.as_ref()) } else { None }));
                    }
                    partial.clear();
                }
                _ => {}
            }
        }
    }
    Json::Array(out)
}

/// listing through the File API: sections in order, value names in order, the n-th occurrence of a
/// name takes the n-th of `values(name)`. Implicit values are not distinguishable here (hasval
/// is reported true with an empty value); the driver compares modulo that.
fn listing_of_file(f: &gix_config::File<'_>) -> Json {
    let mut out = Vec::new();
    for s in f.sections() {
        let h = s.header();
        let mut seen: Vec<(Vec<u8>, usize)> = Vec::new();
        for name in s.body().value_names() {
            let lname = lower(name.as_ref().as_bytes());
            let idx = match seen.iter_mut().find(|(n, _)| *n == lname) {
                Some((_, c)) => {
                    *c += 1;
                    *c - 1
                }
                None => {
                    seen.push((lname.clone(), 1));
                    0
                }
            };
            let vals = s.body().values(name.as_ref());
            let v = vals.get(idx).map(|c| c.as_ref().to_vec());
            let mut e = entry(h.name(), h.subsection_name().map(|b| b.as_bytes()), &lname, v.as_deref());
            if v.is_none() {
                e["missing"] = Json::from(true);
            }
            out.push(e);
        }
    }
    Json::Array(out)
}

fn kind(e: &Event<'_>) -> &'static str {
    match e {
        Event::Comment(_) => "C",
        Event::SectionHeader(_) => "H",
        Event::SectionValueName(_) => "K",
        Event::Value(_) => "V",
        Event::Newline(_) => "N",
        Event::ValueNotDone(_) => "P",
        Event::ValueDone(_) => "D",
        Event::Whitespace(_) => "W",
        Event::KeyValueSeparator => "=",
    }
}

fn main() {
    run(|case| {
        let input = bytes(&case["input"]);
        let mut out = json!({});
        match Events::from_bytes(&input, None) {
            Ok(ev) => {
                out["parse_ok"] = Json::from(true);
                out["elisting0"] = listing_of_events(&ev);
                let mut buf = Vec::new();
                let mut kinds = String::new();
                for e in ev.into_iter() {
                    kinds.push_str(kind(&e));
                    e.write_to(&mut buf).expect("write to vec");
                }
                out["concat"] = jbytes(&buf);
                out["kinds"] = Json::from(kinds);
            }
            Err(e) => {
                out["parse_ok"] = Json::from(false);
                out["parse_err"] = Json::from(e.to_string());
            }
        }
        match gix_config::File::from_bytes_no_includes(&input, gix_config::file::Metadata::api(), Default::default()) {
            Ok(f) => {
                out["file_ok"] = Json::from(true);
                out["listing"] = listing_of_file(&f);
                let ser = f.to_bstring();
                out["ser"] = jbytes(&ser);
                match gix_config::File::from_bytes_no_includes(&ser, gix_config::file::Metadata::api(), Default::default()) {
                    Ok(f2) => {
                        out["reparse_ok"] = Json::from(true);
                        out["listing2"] = listing_of_file(&f2);
                        out["ser2"] = jbytes(&f2.to_bstring());
                    }
                    Err(e) => {
                        out["reparse_ok"] = Json::from(false);
                        out["reparse_err"] = Json::from(e.to_string());
                    }
                }
                if let Ok(ev) = Events::from_bytes(&ser, None) {
                    out["elisting"] = listing_of_events(&ev);
                };
            }
            Err(_) => {
                out["file_ok"] = Json::from(false);
            }
        }
        out
    });
}
