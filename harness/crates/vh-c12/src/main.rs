//! C12 executor: object lookups while the object directory is repacked by git.
//! env: VERIF_C12_TEMPLATE = repository (non-bare, with objects partly packed); objects named by the driver.
//! op "calls": {"steps": [{"h": "A"|"B", "op": "contains"|"find", "obj": name} | {"env": "repack_ad"|"repack_incr"|"midx"|"prune_packed"|"gc"}],
//!              "objects": {name: {"id": hex, "sha": hex of content}}, "slots": n}
//!     got: per step {"found": bool, "exact": bool} | {"env": "ok"} | {"panic": msg} | {"error": msg}
//! op "stress": {"threads": n, "seconds": s, "objects": {...}, "seed": k} - threads look objects up while this process runs git repacks
//!     got: {"events": [{obj, found, exact}] (only the anomalies and a count), "lookups": n, "repacks": n}
use std::path::{Path, PathBuf};
use vhlib::*;

fn repo_copy(tag: &str) -> PathBuf {
    let work = PathBuf::from(std::env::var("VERIF_WORK").expect("VERIF_WORK"));
    let dir = work.join(format!("c12-{}-{}", tag, std::process::id()));
    let _ = std::fs::remove_dir_all(&dir);
    let template = std::env::var("VERIF_C12_TEMPLATE").expect("VERIF_C12_TEMPLATE");
    assert!(std::process::Command::new("cp").arg("-r").arg(&template).arg(&dir).status().expect("cp").success());
    dir
}

/// commit dates are a function of the case and the number of git calls so far: object and pack names, and with them the order
/// in which the store lists index files, are the same whenever a case is run again
static GIT_CLOCK: std::sync::atomic::AtomicU64 = std::sync::atomic::AtomicU64::new(1_000_000_000);

fn git(repo: &Path, args: &[&str]) -> bool {
    let now = GIT_CLOCK.fetch_add(1, std::sync::atomic::Ordering::SeqCst);
    std::process::Command::new("git")
        .current_dir(repo)
        .args(["-c", "core.fsync=none", "-c", "gc.auto=0"])
        .args(args)
        .env("GIT_AUTHOR_DATE", format!("{now} +0000"))
        .env("GIT_COMMITTER_DATE", format!("{now} +0000"))
        .env("GIT_CONFIG_NOSYSTEM", "1")
        .env("GIT_CONFIG_GLOBAL", "/dev/null")
        .stdout(std::process::Stdio::null())
        .stderr(std::process::Stdio::null())
        .status()
        .map(|s| s.success())
        .unwrap_or(false)
}

/// new packs bring one new file each: `f<n>` with n counting the ones already there
fn next_file_number(repo: &Path) -> usize {
    std::fs::read_dir(repo)
        .map(|d| d.filter_map(Result::ok).filter(|e| e.file_name().to_string_lossy().starts_with('f')).count())
        .unwrap_or(0)
}

fn env_step(repo: &Path, what: &str) -> bool {
    match what {
        "repack_ad" => git(repo, &["repack", "-a", "-d", "-q"]),
        "repack_incr" => git(repo, &["repack", "-d", "-q"]),
        "midx" => git(repo, &["multi-pack-index", "write"]),
        "prune_packed" => git(repo, &["prune-packed"]),
        "gc" => git(repo, &["gc", "-q", "--prune=now"]),
        // new objects arrive as a further pack (a fetch): commit, then pack only the new loose objects
        "new_pack" => {
            let n = next_file_number(repo);
            std::fs::write(repo.join(format!("f{n}")), format!("content {n}")).is_ok()
                && git(repo, &["add", "."])
                && git(repo, &["-c", "user.name=v", "-c", "user.email=v@x", "commit", "-q", "-m", "more"])
                && git(repo, &["repack", "-d", "-q"])
        }
        other => panic!("env {other}"),
    }
}

fn sha_hex(data: &[u8], kind: gix_object::Kind) -> String {
    gix_object::compute_hash(gix_hash::Kind::Sha1, kind, data).to_hex().to_string()
}

fn lookup<H: gix_object::Find + gix_object::Exists + gix_odb::Header>(handle: &H, op: &str, id_hex: &str) -> Json {
    let id = gix_hash::ObjectId::from_hex(id_hex.as_bytes()).expect("hex");
    let r = guarded(|| match op {
        "contains" => Ok((Ok::<bool, gix_object::find::Error>(handle.exists(&id)), None)),
        "header" => Ok((handle.try_header(&id).map(|h| h.is_some()), None)),
        "find" => {
            let mut buf = Vec::new();
            match handle.try_find(&id, &mut buf) {
                Ok(Some(d)) => Ok((Ok(true), Some(sha_hex(d.data, d.kind)))),
                Ok(None) => Ok((Ok(false), None)),
                Err(e) => Err(e.to_string()),
            }
        }
        other => panic!("op {other}"),
    });
    match r {
        Err(p) => json!({ "panic": p }),
        Ok(Err(e)) => json!({ "error": e }),
        Ok(Ok((Err(e), _))) => json!({"error": e.to_string()}),
        Ok(Ok((Ok(found), recomputed))) => {
            // the recomputed id of the returned bytes must be the id asked for: content exactness
            json!({"found": found, "exact": recomputed.map_or(true, |h| h == id_hex)})
        }
    }
}

type ArcHandle = gix_odb::Cache<gix_odb::store::Handle<std::sync::Arc<gix_odb::Store>>>;
fn open(repo: &Path, slots: u16) -> ArcHandle {
    let store = std::sync::Arc::new(
        gix_odb::Store::at_opts(
            repo.join(".git/objects"),
            &mut None.into_iter(),
            gix_odb::store::init::Options { slots: gix_odb::store::init::Slots::Given(slots), ..Default::default() },
        )
        .expect("odb"),
    );
    store.to_cache_arc()
}

fn calls_case(case: &Json) -> Json {
    GIT_CLOCK.store(case["date"].as_u64().unwrap_or(1_000_000_000), std::sync::atomic::Ordering::SeqCst);
    let repo = repo_copy("calls");
    let slots = case["slots"].as_u64().unwrap_or(8) as u16;
    let a = open(&repo, slots);
    let b = a.clone();
    let mut s: Option<ArcHandle> = None;
    let mut newest: Option<String> = None;
    let mut out = Vec::new();
    for step in case["steps"].as_array().expect("steps") {
        if let Some(e) = step.get("env").and_then(|e| e.as_str()).filter(|e| !e.is_empty()) {
            let n = next_file_number(&repo);
            let ok = env_step(&repo, e);
            if ok && e == "new_pack" {
                // the blob that came with the new pack lives in that pack only
                let o = std::process::Command::new("git").current_dir(&repo).args(["rev-parse", &format!("HEAD:f{n}")]).output().expect("git");
                newest = Some(String::from_utf8_lossy(&o.stdout).trim().to_string());
            }
            out.push(json!({"env": if ok { "ok" } else { "failed" }}));
            continue;
        }
        match jstr(&step["op"]) {
            "open_stable" => {
                // a handle that asks the store to keep deleted packs available while it lives
                let mut h = a.clone();
                h.prevent_pack_unload();
                s = Some(h);
                out.push(json!({"handle": "opened"}));
                continue;
            }
            "drop" => {
                s = None;
                out.push(json!({"handle": "dropped"}));
                continue;
            }
            _ => {}
        }
        let h = match jstr(&step["h"]) {
            "A" => &a,
            "B" => &b,
            "S" => s.as_ref().expect("S is open"),
            other => panic!("handle {other}"),
        };
        let obj = jstr(&step["obj"]);
        let id = match (obj, case["objects"].get(obj)) {
            ("newest", _) => newest.clone().unwrap_or_else(|| "ffffffffffffffffffffffffffffffffffffffff".to_string()),
            (_, Some(o)) => jstr(&o["id"]).to_string(),
            (_, None) => "ffffffffffffffffffffffffffffffffffffffff".to_string(), // "missing"
        };
        let mut r = lookup(h, jstr(&step["op"]), &id);
        // the index files present at this step: what the slots have to hold
        let mut idx: Vec<String> = std::fs::read_dir(repo.join(".git/objects/pack"))
            .map(|d| {
                d.filter_map(|e| e.ok().map(|e| e.file_name().to_string_lossy().into_owned()))
                    .filter(|n| n.ends_with(".idx") || n == "multi-pack-index")
                    .collect()
            })
            .unwrap_or_default();
        idx.sort();
        r["idx"] = json!(idx);
        out.push(r);
    }
    drop((a, b, s));
    if std::env::var_os("VERIF_C12_KEEP").is_none() {
        let _ = std::fs::remove_dir_all(&repo);
    }
    Json::Array(out)
}

fn stress_case(case: &Json) -> Json {
    let repo = repo_copy("stress");
    let threads = jint(&case["threads"]) as usize;
    let millis = jint(&case["millis"]) as u64;
    let seed = jint(&case["seed"]) as u64;
    let ids: Vec<String> = case["objects"].as_object().unwrap().values().map(|o| jstr(&o["id"]).to_string()).collect();
    let root = open(&repo, case["slots"].as_u64().unwrap_or(8) as u16);
    let stop = std::sync::atomic::AtomicBool::new(false);
    let anomalies = std::sync::Mutex::new(Vec::new());
    let lookups = std::sync::atomic::AtomicU64::new(0);
    let mut repacks = 0;
    std::thread::scope(|s| {
        for t in 0..threads {
            let (ids, stop, anomalies, lookups) = (&ids, &stop, &anomalies, &lookups);
            let h = root.clone();
            s.spawn(move || {
                let mut x = seed.wrapping_add(t as u64 + 1).wrapping_mul(6364136223846793005);
                while !stop.load(std::sync::atomic::Ordering::Relaxed) {
                    x = x.wrapping_mul(6364136223846793005).wrapping_add(1442695040888963407);
                    let pick = (x >> 33) as usize;
                    let (id, present) = if pick % 5 == 0 {
                        ("ffffffffffffffffffffffffffffffffffffffff".to_string(), false)
                    } else {
                        (ids[pick % ids.len()].clone(), true)
                    };
                    let op = ["contains", "find", "header", "find"][(pick / 7) % 4];
                    let r = lookup(&h, op, &id);
                    lookups.fetch_add(1, std::sync::atomic::Ordering::Relaxed);
                    let ok = r.get("found").and_then(|f| f.as_bool()) == Some(present) && r.get("exact").and_then(|f| f.as_bool()) == Some(true);
                    if !ok {
                        let mut a = anomalies.lock().unwrap();
                        if a.len() < 50 {
                            a.push(json!({"id": id, "present": present, "result": r, "thread": t, "op": op}));
                        }
                    }
                }
            });
        }
        let start = std::time::Instant::now();
        let mut k = 0;
        while start.elapsed() < std::time::Duration::from_millis(millis) {
            let what = ["new_pack", "repack_ad", "new_pack", "midx", "new_pack", "repack_incr", "gc", "prune_packed"][k % 8];
            env_step(&repo, what);
            repacks += 1;
            k += 1;
        }
        stop.store(true, std::sync::atomic::Ordering::Relaxed);
    });
    let res = json!({"anomalies": anomalies.into_inner().unwrap(), "lookups": lookups.load(std::sync::atomic::Ordering::Relaxed), "repacks": repacks});
    drop(root);
    let _ = std::fs::remove_dir_all(&repo);
    res
}

/// op "slotmap": {"steps": [{"op": "add"|"remove", "f": k} | {"op": "open_stable"|"drop_stable"} | {"op": "lookup"}], "slots": n,
///                "pool": dir with pack-f<k>.pack/.idx, "probe": {k: hex id of an object in file k}}
/// Pack files are linked into and removed from an otherwise empty object directory; a lookup asks a refreshing handle for an id
/// that does not exist. After each lookup: what Store::structure() and Store::metrics() show, and whether an object of every
/// pack on disk is found.
fn slotmap_case(case: &Json) -> Json {
    let work = PathBuf::from(std::env::var("VERIF_WORK").expect("VERIF_WORK"));
    let dir = work.join(format!("c12-slotmap-{}", std::process::id()));
    let _ = std::fs::remove_dir_all(&dir);
    let pack_dir = dir.join("objects/pack");
    std::fs::create_dir_all(&pack_dir).expect("mkdir");
    let pool = PathBuf::from(jstr(&case["pool"]));
    let slots = case["slots"].as_u64().expect("slots") as u16;
    let store = std::sync::Arc::new(
        gix_odb::Store::at_opts(
            dir.join("objects"),
            &mut None.into_iter(),
            gix_odb::store::init::Options { slots: gix_odb::store::init::Slots::Given(slots), ..Default::default() },
        )
        .expect("odb"),
    );
    let a = store.to_cache_arc();
    let mut s: Option<ArcHandle> = None;
    let mut on_disk = std::collections::BTreeSet::new();
    let missing = gix_hash::ObjectId::from_hex(b"ffffffffffffffffffffffffffffffffffffffff").expect("hex");
    let file_no = |p: &Path| -> u64 {
        p.file_name()
            .and_then(|n| n.to_str())
            .and_then(|n| n.strip_prefix("pack-f"))
            .and_then(|n| n.strip_suffix(".idx"))
            .and_then(|n| n.parse().ok())
            .unwrap_or(0)
    };
    let mut out = Vec::new();
    for step in case["steps"].as_array().expect("steps") {
        let f = step["f"].as_u64().unwrap_or(0);
        match jstr(&step["op"]) {
            "add" => {
                for ext in ["pack", "idx"] {
                    std::fs::copy(pool.join(format!("pack-f{f}.{ext}")), pack_dir.join(format!("pack-f{f}.{ext}"))).expect("copy");
                }
                on_disk.insert(f);
                out.push(json!({"env": "ok"}));
            }
            "remove" => {
                for ext in ["idx", "pack"] {
                    std::fs::remove_file(pack_dir.join(format!("pack-f{f}.{ext}"))).expect("remove");
                }
                on_disk.remove(&f);
                out.push(json!({"env": "ok"}));
            }
            "open_stable" => {
                let mut h = a.clone();
                h.prevent_pack_unload();
                s = Some(h);
                out.push(json!({"env": "ok"}));
            }
            "drop_stable" => {
                s = None;
                out.push(json!({"env": "ok"}));
            }
            "lookup" => {
                let r = guarded(|| {
                    let mut buf = Vec::new();
                    let res = gix_object::Find::try_find(&a, &missing, &mut buf).map(|o| o.is_some());
                    let mut order = Vec::new();
                    let mut disposable = Vec::new();
                    // an index that was never published has no records; structure() would try to initialise it once more, which is
                    // a further refresh and not an observation
                    let initialized = store.metrics().loose_dbs != 0;
                    for rec in if initialized { store.structure().map_err(|e| e.to_string())? } else { Vec::new() } {
                        use gix_odb::store::structure::{IndexState, Record};
                        match rec {
                            Record::LooseObjectDatabase { .. } => {}
                            Record::Index { path, state } | Record::MultiIndex { path, state } => {
                                order.push(file_no(&path));
                                disposable.push(matches!(state, IndexState::Disposable));
                            }
                            Record::Empty => {
                                order.push(0);
                                disposable.push(false);
                            }
                        }
                    }
                    let m = store.metrics();
                    let mut found = Vec::new();
                    if res.is_ok() {
                        for k in &on_disk {
                            let id = gix_hash::ObjectId::from_hex(jstr(&case["probe"][k.to_string()]).as_bytes()).expect("hex");
                            let mut buf = Vec::new();
                            found.push(match gix_object::Find::try_find(&a, &id, &mut buf) {
                                Ok(Some(d)) => json!({"f": k, "found": true, "exact": sha_hex(d.data, d.kind) == id.to_hex().to_string()}),
                                Ok(None) => json!({"f": k, "found": false}),
                                Err(e) => json!({"f": k, "error": e.to_string()}),
                            });
                        }
                    }
                    Ok::<_, String>(json!({"ok": matches!(res, Ok(false)), "found_missing": matches!(res, Ok(true)),
                        "err": res.err().map(|e| e.to_string()).unwrap_or_default(),
                        "order": order, "disposable": disposable, "unused": m.unused_slots, "kept": m.unreachable_indices, "probes": found}))
                });
                out.push(match r {
                    Ok(Ok(j)) => j,
                    Ok(Err(e)) => json!({"error": e}),
                    Err(p) => json!({"panic": p}),
                });
            }
            other => panic!("slotmap op {other}"),
        }
    }
    drop((a, s));
    let _ = std::fs::remove_dir_all(&dir);
    Json::Array(out)
}

fn main() {
    run(|case| match jstr(&case["op"]) {
        "calls" => calls_case(case),
        "slotmap" => slotmap_case(case),
        "stress" => stress_case(case),
        other => panic!("op {other}"),
    });
}
