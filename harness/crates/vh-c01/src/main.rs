//! C01 executor: encode an object value, declare its size, decode it again.
//!
//! case: {"o": {"kind": "commit"|"tag"|"tree"|"blob", "v": <value as in spec/object/ObjFormat.tla>}, "loose": bool}
//! got:  {"write_ok", "write_err", "bytes", "size", "header" (WriteTo::loose_header), "id" (compute_hash of bytes),
//!        "times": [{"secs","size","written"}..]   gix_date::Time::size() / write_to() of every time in the value
//!        "decode_ok", "decoded": <value>, "offsets": [{"offset","sign","hh","mm"}..] raw decoded offsets
//!        "ref_ok", "ref_size", "ref_bytes"      size()/write_to() of the decoded *Ref object
//!        "loose_ok", "loose_id", "loose_raw"    gix_odb::loose::Store::write: id returned and file content (zlib)}
use bstr::{BString, ByteSlice};
use gix_date::time::Sign;
use gix_object::{tree, Blob, Commit, Kind, Object, ObjectRef, Tag, Tree, WriteTo};
use vhlib::*;

fn hex_id(v: &Json) -> gix_hash::ObjectId {
    gix_hash::ObjectId::from_hex(&bytes(v)).expect("40 hex bytes")
}

fn time_of(v: &Json) -> gix_date::Time {
    let secs: i64 = std::str::from_utf8(&bytes(&v["secs"])).expect("ascii").parse().expect("i64 text");
    let minus = jint(&v["sign"]) == 45;
    let abs = (jint(&v["hh"]) * 3600 + jint(&v["mm"]) * 60) as i32;
    gix_date::Time {
        seconds: secs,
        offset: if minus { -abs } else { abs },
        sign: if minus { Sign::Minus } else { Sign::Plus },
    }
}

fn sig_of(v: &Json) -> gix_actor::Signature {
    gix_actor::Signature { name: bytes(&v["name"]).into(), email: bytes(&v["email"]).into(), time: time_of(&v["time"]) }
}

fn opt_bytes(v: &Json) -> Option<BString> {
    jbool(&v["some"]).then(|| bytes(&v["v"]).into())
}

fn kind_of_word(w: &[u8]) -> Kind {
    Kind::from_bytes(w).expect("object kind word")
}

fn object_of(o: &Json) -> Object {
    let v = &o["v"];
    match jstr(&o["kind"]) {
        "commit" => Object::Commit(Commit {
            tree: hex_id(&v["tree"]),
            parents: v["parents"].as_array().expect("parents").iter().map(hex_id).collect(),
            author: sig_of(&v["author"]),
            committer: sig_of(&v["committer"]),
            encoding: opt_bytes(&v["encoding"]),
            message: bytes(&v["message"]).into(),
            extra_headers: v["extra"]
                .as_array()
                .expect("extra")
                .iter()
                .map(|h| (bytes(&h["name"]).into(), bytes(&h["value"]).into()))
                .collect(),
        }),
        "tag" => Object::Tag(Tag {
            target: hex_id(&v["target"]),
            target_kind: kind_of_word(&bytes(&v["target_kind"])),
            name: bytes(&v["name"]).into(),
            tagger: jbool(&v["tagger"]["some"]).then(|| sig_of(&v["tagger"]["v"])),
            message: bytes(&v["message"]).into(),
            pgp_signature: opt_bytes(&v["pgp"]),
        }),
        "tree" => Object::Tree(Tree {
            entries: v["entries"]
                .as_array()
                .expect("entries")
                .iter()
                .map(|e| tree::Entry {
                    mode: tree::EntryMode(
                        u16::from_str_radix(std::str::from_utf8(&bytes(&e["mode"])).expect("octal"), 8).expect("octal mode"),
                    ),
                    filename: bytes(&e["name"]).into(),
                    oid: gix_hash::ObjectId::try_from(bytes(&e["id"]).as_slice()).expect("20 bytes"),
                })
                .collect(),
        }),
        "blob" => Object::Blob(Blob { data: bytes(&v["data"]) }),
        other => panic!("unknown kind {other}"),
    }
}

fn jtime(t: &gix_date::Time) -> Json {
    let abs = t.offset.unsigned_abs();
    json!({"secs": jbytes(t.seconds.to_string().as_bytes()),
           "sign": if t.sign == Sign::Minus { 45 } else { 43 },
           "hh": abs / 3600, "mm": (abs % 3600) / 60})
}

fn jsig(s: &gix_actor::Signature) -> Json {
    json!({"name": jbytes(&s.name), "email": jbytes(&s.email), "time": jtime(&s.time)})
}

fn jopt(b: &Option<BString>) -> Json {
    match b {
        Some(b) => json!({"some": true, "v": jbytes(b)}),
        None => json!({"some": false, "v": []}),
    }
}

fn no_sig() -> Json {
    json!({"name": [], "email": [], "time": {"secs": [48], "sign": 43, "hh": 0, "mm": 0}})
}

fn jobject(o: &Object) -> Json {
    match o {
        Object::Commit(c) => json!({"kind": "commit", "v": {
            "tree": jbytes(c.tree.to_string().as_bytes()),
            "parents": c.parents.iter().map(|p| jbytes(p.to_string().as_bytes())).collect::<Vec<_>>(),
            "author": jsig(&c.author), "committer": jsig(&c.committer),
            "encoding": jopt(&c.encoding),
            "extra": c.extra_headers.iter().map(|(n, v)| json!({"name": jbytes(n), "value": jbytes(v)})).collect::<Vec<_>>(),
            "message": jbytes(&c.message)}}),
        Object::Tag(t) => json!({"kind": "tag", "v": {
            "target": jbytes(t.target.to_string().as_bytes()),
            "target_kind": jbytes(t.target_kind.as_bytes()),
            "name": jbytes(&t.name),
            "tagger": match &t.tagger { Some(s) => json!({"some": true, "v": jsig(s)}), None => json!({"some": false, "v": no_sig()}) },
            "message": jbytes(&t.message),
            "pgp": jopt(&t.pgp_signature)}}),
        Object::Tree(t) => json!({"kind": "tree", "v": {"entries": t.entries.iter().map(|e| {
            let mut buf = Default::default();
            json!({"mode": jbytes(e.mode.as_bytes(&mut buf)), "name": jbytes(&e.filename), "id": jbytes(e.oid.as_bytes())})
        }).collect::<Vec<_>>()}}),
        Object::Blob(b) => json!({"kind": "blob", "v": {"data": jbytes(&b.data)}}),
    }
}

fn times_of(o: &Object) -> Vec<gix_date::Time> {
    match o {
        Object::Commit(c) => vec![c.author.time, c.committer.time],
        Object::Tag(t) => t.tagger.iter().map(|s| s.time).collect(),
        _ => vec![],
    }
}

fn main() {
    let work = std::env::var("VERIF_WORK").unwrap_or_else(|_| ".".into());
    let loose_dir = std::path::PathBuf::from(work).join(format!("loose-{}", std::process::id()));
    run(|case| {
        let obj = object_of(&case["o"]);
        let kind = obj.kind();
        let size = obj.size();
        let header = obj.loose_header();
        let mut buf = Vec::new();
        let (write_ok, write_err) = match obj.write_to(&mut buf) {
            Ok(()) => (true, String::new()),
            Err(e) => (false, e.to_string()),
        };
        let id = gix_object::compute_hash(gix_hash::Kind::Sha1, kind, &buf);
        let times: Vec<Json> = times_of(&obj)
            .iter()
            .map(|t| {
                let mut w = Vec::new();
                t.write_to(&mut w).expect("time write");
                json!({"secs": jbytes(t.seconds.to_string().as_bytes()), "size": t.size(), "written": jbytes(&w)})
            })
            .collect();

        let mut out = json!({
            "write_ok": write_ok, "write_err": write_err, "bytes": jbytes(&buf), "size": size,
            "header": jbytes(&header), "id": jbytes(id.as_bytes()), "times": times,
        });

        match ObjectRef::from_bytes(kind, &buf) {
            Ok(r) => {
                let mut rb = Vec::new();
                let ref_ok = r.write_to(&mut rb).is_ok();
                out["ref_ok"] = Json::from(ref_ok);
                out["ref_size"] = Json::from(r.size());
                out["ref_bytes"] = jbytes(&rb);
                let owned = r.into_owned();
                out["decode_ok"] = Json::from(true);
                out["decoded"] = jobject(&owned);
                out["offsets"] = Json::Array(
                    times_of(&owned)
                        .iter()
                        .map(|t| {
                            let abs = t.offset.unsigned_abs();
                            json!({"offset": t.offset, "sign": if t.sign == Sign::Minus { 45 } else { 43 }, "hh": abs / 3600, "mm": (abs % 3600) / 60})
                        })
                        .collect(),
                );
            }
            Err(e) => {
                out["decode_ok"] = Json::from(false);
                out["decode_err"] = Json::from(e.to_string());
                out["decoded"] = json!({"kind": kind.to_string(), "v": []});
                out["offsets"] = json!([]);
                out["ref_ok"] = Json::from(false);
                out["ref_size"] = Json::from(0);
                out["ref_bytes"] = json!([]);
            }
        }

        if case["loose"].as_bool().unwrap_or(false) {
            use gix_odb::Write;
            std::fs::create_dir_all(&loose_dir).expect("mkdir loose");
            let store = gix_odb::loose::Store::at(&loose_dir, gix_hash::Kind::Sha1);
            match store.write(&obj) {
                Ok(lid) => {
                    let path = store.object_path(&lid);
                    let raw = std::fs::read(&path).expect("read loose object");
                    let _ = std::fs::remove_file(&path);
                    out["loose_ok"] = Json::from(true);
                    out["loose_id"] = jbytes(lid.as_bytes());
                    out["loose_raw"] = jbytes(&raw);
                }
                Err(e) => {
                    out["loose_ok"] = Json::from(false);
                    out["loose_err"] = Json::from(e.to_string());
                    out["loose_id"] = json!([]);
                    out["loose_raw"] = json!([]);
                }
            }
        }
        let _ = buf.as_bstr();
        out
    });
    let _ = std::fs::remove_dir_all(&loose_dir);
}
