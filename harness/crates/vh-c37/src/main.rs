//! C37 executor: ignore decisions of gix_worktree::Stack.
//! case: {"srcs": [{"kind": "dir"|"info"|"global", "base": [bytes], "content": [bytes]}..],
//!        "queries": [{"p": [bytes], "d": bool}..]}
//! The sources are written to a scratch worktree / git dir under $VERIF_WORK; then, once
//! case-sensitively and once case-folding, a fresh `gix_worktree::Stack` (ignore state: globals from
//! `gix_ignore::Search::from_git_dir`, per-directory files read from the worktree) answers every query
//! in order via `at_entry(path, mode)` + `matching_exclude_pattern()`.
//! got: {"cs": [[m, src, line]..], "ic": [..]}   m: 0 no match, 1 ignored, 2 negative pattern;
//!       src: 1-based index into srcs of the file the pattern came from (-1: unknown file), line: its line.
use std::path::{Path, PathBuf};

use bstr::ByteSlice;
use gix_glob::pattern::Case;
use vhlib::*;

fn answers(root: &Path, git_dir: &Path, excludes: Option<PathBuf>, case: Case, case_json: &Json, files: &[PathBuf]) -> Json {
    let mut buf = Vec::new();
    let globals = gix_ignore::Search::from_git_dir(git_dir, excludes, &mut buf).expect("globals");
    let ignore = gix_worktree::stack::state::Ignore::new(
        Default::default(),
        globals,
        None,
        gix_worktree::stack::state::ignore::Source::WorktreeThenIdMappingIfNotSkipped,
    );
    let mut stack = gix_worktree::Stack::new(root, gix_worktree::stack::State::IgnoreStack(ignore), case, buf, vec![]);
    let mut out = Vec::new();
    for q in case_json["queries"].as_array().expect("queries") {
        let p = bytes(&q["p"]);
        let mode = if jbool(&q["d"]) {
            gix_index::entry::Mode::DIR
        } else {
            gix_index::entry::Mode::FILE
        };
        match stack.at_entry(p.as_bstr(), Some(mode), &gix_object::find::Never) {
            Ok(platform) => match platform.matching_exclude_pattern() {
                Some(m) => {
                    let src = m
                        .source
                        .and_then(|s| files.iter().position(|f| f == s))
                        .map_or(-1, |i| i as i64 + 1);
                    out.push(json!([if m.pattern.is_negative() { 2 } else { 1 }, src, m.sequence_number]));
                }
                None => out.push(json!([0, 0, 0])),
            },
            Err(e) => out.push(json!({"err": e.to_string()})),
        }
    }
    Json::Array(out)
}

fn main() {
    run(|case| {
        let work = std::env::var("VERIF_WORK").expect("VERIF_WORK");
        let top = PathBuf::from(work).join(format!("ig-{}", std::process::id()));
        let _ = std::fs::remove_dir_all(&top);
        let root = top.join("wt");
        let git_dir = top.join("gd");
        std::fs::create_dir_all(&root).expect("mkdir");
        std::fs::create_dir_all(git_dir.join("info")).expect("mkdir");
        let mut files = Vec::new();
        let mut excludes = None;
        for s in case["srcs"].as_array().expect("srcs") {
            let content = bytes(&s["content"]);
            let path = match jstr(&s["kind"]) {
                "dir" => {
                    let base = bytes(&s["base"]);
                    let dir = if base.is_empty() {
                        root.clone()
                    } else {
                        root.join(gix_path::from_bstr(base.as_bstr()))
                    };
                    std::fs::create_dir_all(&dir).expect("mkdir");
                    dir.join(".gitignore")
                }
                "info" => git_dir.join("info").join("exclude"),
                "global" => {
                    let p = top.join("global-excludes");
                    excludes = Some(p.clone());
                    p
                }
                other => panic!("unknown kind {other}"),
            };
            // an absent file and an empty file are the same to git; write only what has content
            if !content.is_empty() {
                std::fs::write(&path, &content).expect("write");
            }
            files.push(path);
        }
        let out = json!({
            "cs": answers(&root, &git_dir, excludes.clone(), Case::Sensitive, case, &files),
            "ic": answers(&root, &git_dir, excludes, Case::Fold, case, &files),
        });
        let _ = std::fs::remove_dir_all(&top);
        out
    });
}
