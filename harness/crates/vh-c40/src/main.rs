//! C40 executor: path component validation.
//! case: {"comp": [bytes]}
//! got:  {"plain": [e0..e7], "symlink": [e0..e7]}   one entry per option set, index = windows*4 + ntfs*2 + hfs;
//!        entry = "" when gix_validate::path::component(comp, mode, options) accepts, else the error variant's name.
//!        "plain" is mode None (regular leaf or directory), "symlink" is Some(Mode::Symlink).
use bstr::ByteSlice;
use gix_validate::path::component::{Mode, Options};
use vhlib::*;

fn verdicts(comp: &[u8], mode: Option<Mode>) -> Json {
    let mut out = Vec::new();
    for windows in [false, true] {
        for ntfs in [false, true] {
            for hfs in [false, true] {
                let opts = Options {
                    protect_windows: windows,
                    protect_hfs: hfs,
                    protect_ntfs: ntfs,
                };
                out.push(match gix_validate::path::component(comp.as_bstr(), mode, opts) {
                    Ok(_) => Json::from(""),
                    Err(e) => Json::from(format!("{e:?}")),
                });
            }
        }
    }
    Json::Array(out)
}

fn main() {
    run(|case| {
        let comp = bytes(&case["comp"]);
        json!({"plain": verdicts(&comp, None), "symlink": verdicts(&comp, Some(Mode::Symlink))})
    });
}
