//! Shared plumbing of the verification harness binaries.
//!
//! Every binary is an *executor of cases*: `vh-<domain> <cases.ndjson> <out.ndjson> [start]`.
//! Each input line is one JSON case (emitted by TLC from a `_Gen` module, or by a seeded driver);
//! the binary runs it against the real gitoxide code and writes one JSON line
//! `{"i": <line index>, "got": <observation>}` or `{"i": .., "panic": "<message>"}`.
//! Verdicts are never formed here: the expected value comes from the TLA+ specification and is
//! compared by the driver (binding A), or the observation is fed back to TLC (binding B).
use std::io::{BufRead, BufWriter, Write};
use std::panic::{catch_unwind, AssertUnwindSafe};
use std::sync::{Arc, Mutex};

pub use serde_json::{json, Map, Value as Json};

/// JSON int array -> bytes (values are 0..=255 by construction of the specs).
pub fn bytes(v: &Json) -> Vec<u8> {
    match v {
        Json::Array(a) => a.iter().map(|x| x.as_u64().expect("byte") as u8).collect(),
        Json::String(s) => s.as_bytes().to_vec(),
        Json::Null => Vec::new(),
        other => panic!("not a byte array: {other}"),
    }
}

/// bytes -> JSON int array.
pub fn jbytes(b: &[u8]) -> Json {
    Json::Array(b.iter().map(|x| Json::from(*x as u64)).collect())
}

/// Array of byte arrays.
pub fn bytes_list(v: &Json) -> Vec<Vec<u8>> {
    v.as_array().map(|a| a.iter().map(bytes).collect()).unwrap_or_default()
}

pub fn jstr(v: &Json) -> &str {
    v.as_str().unwrap_or_else(|| panic!("not a string: {v}"))
}

pub fn jint(v: &Json) -> i64 {
    v.as_i64().unwrap_or_else(|| panic!("not an int: {v}"))
}

pub fn jbool(v: &Json) -> bool {
    v.as_bool().unwrap_or_else(|| panic!("not a bool: {v}"))
}

/// Run `f`, turning a panic into `Err(message)`.
pub fn guarded<T>(f: impl FnOnce() -> T) -> Result<T, String> {
    let msg: Arc<Mutex<Option<String>>> = Arc::new(Mutex::new(None));
    let m2 = msg.clone();
    let prev = std::panic::take_hook();
    std::panic::set_hook(Box::new(move |info| {
        let loc = info.location().map(|l| format!("{}:{}", l.file(), l.line())).unwrap_or_default();
        let payload = if let Some(s) = info.payload().downcast_ref::<&str>() {
            (*s).to_string()
        } else if let Some(s) = info.payload().downcast_ref::<String>() {
            s.clone()
        } else {
            "<non-string panic>".into()
        };
        *m2.lock().unwrap() = Some(format!("{payload} @ {loc}"));
    }));
    let r = catch_unwind(AssertUnwindSafe(f));
    std::panic::set_hook(prev);
    match r {
        Ok(v) => Ok(v),
        Err(_) => Err(msg.lock().unwrap().take().unwrap_or_else(|| "<panic>".into())),
    }
}

/// The main loop shared by all executors.
pub fn run(handler: impl Fn(&Json) -> Json) {
    let args: Vec<String> = std::env::args().collect();
    if args.len() < 3 {
        eprintln!("usage: {} <cases.ndjson> <out.ndjson> [start-index]", args[0]);
        std::process::exit(2);
    }
    let start: usize = args.get(3).map(|s| s.parse().expect("start index")).unwrap_or(0);
    let input = std::io::BufReader::new(std::fs::File::open(&args[1]).expect("open cases"));
    let mut out = BufWriter::new(
        std::fs::OpenOptions::new()
            .create(true)
            .append(start > 0)
            .write(true)
            .truncate(start == 0)
            .open(&args[2])
            .expect("open out"),
    );
    for (i, line) in input.lines().enumerate() {
        let line = line.expect("read line");
        if i < start || line.trim().is_empty() {
            continue;
        }
        let case: Json = serde_json::from_str(&line).unwrap_or_else(|e| panic!("case {i}: {e}"));
        let res = match guarded(|| handler(&case)) {
            Ok(got) => json!({"i": i, "got": got}),
            Err(msg) => json!({"i": i, "panic": msg}),
        };
        serde_json::to_writer(&mut out, &res).expect("write");
        out.write_all(b"\n").expect("write");
        // flushed per line so that a hang or abort identifies the case that caused it
        out.flush().expect("flush");
    }
}
